#!/venv/bin/python
"""tools/seedtest.py <seed-dir>... : verify seeded changes and run checks against them.

For each seed directory (patch.diff, demo.py): copy /repo's working tree to a scratch
dir, apply the patch, run the repository tests and the demo (with and without
the patch), then run the given checks with PYTHONPATH pointing at the patched
copy.  Prints one JSON line per seed.  /repo itself is never modified.
"""
import json, os, shutil, subprocess, sys, tempfile
from pathlib import Path

VERIF = Path(__file__).resolve().parent.parent
DEFAULT = {
    "C01": ["C01"], "C02": ["C02"], "C03": ["C03"], "C04": ["C04"], "C05": ["C05"], "C06": ["C06"],
    "C07": ["C07"], "C08": ["C08"], "C09": ["C09"], "C10": ["C10"], "C11": ["C11"], "C12": ["C12"],
    "C13": ["C13"], "C14": ["C14"], "C15": ["C15"], "C16": ["C16"], "C17": ["C17"], "C18": ["C18"],
    "C19": ["C19"], "C20": ["C20"],
    # second round: ids name the mechanism, several properties may be hit
    "J": ["C02", "C03"], "B": ["C03", "C04"], "S": ["C02"], "O": ["C11", "C02"], "A": ["C08"], "P": ["C07"],
    "W": ["C10"], "V": ["C09"], "L": ["C18", "C01"], "M": ["C06"], "D": ["C16"], "R": ["C20"], "E": ["C14", "C20"],
}


def run(cmd, cwd=None, env=None, timeout=1800):
    p = subprocess.run(cmd, cwd=cwd, env=env, capture_output=True, text=True, timeout=timeout)
    return p.returncode, p.stdout + p.stderr


def main():
    claimed = {c["property_id"] for c in json.loads((VERIF / "MANIFEST.json").read_text())["checks"]}
    tier = os.environ.get("TIER", "quick")
    for d in sys.argv[1:]:
        d = Path(d)
        prop = d.name.split("_")[0]
        res = {"seed": d.name}
        tmp = Path(tempfile.mkdtemp(prefix="verif-seed-"))
        try:
            run(["rsync", "-a", "--exclude", ".git", "--exclude", "__pycache__", "/repo/", str(tmp / "repo")])
            env0 = dict(os.environ, PYTHONPATH=str(tmp / "repo" / "python"))
            rc, out = run(["/venv/bin/python", str(d / "demo.py")], cwd=tmp / "repo", env=env0)
            res["demo_passes_without"] = rc == 0
            rc, out = run(["patch", "-p1", "-s", "-i", str(d / "patch.diff")], cwd=tmp / "repo")
            res["applies"] = rc == 0
            if rc != 0:
                res["apply_output"] = out[-300:]
                print(json.dumps(res), flush=True)
                continue
            rc, out = run(["/venv/bin/python", "-m", "pytest", "-q", "-p", "no:cacheprovider", "tests"], cwd=tmp / "repo", env=env0)
            res["tests_pass"] = rc == 0 and "82 passed" in out
            rc, out = run(["/venv/bin/python", str(d / "demo.py")], cwd=tmp / "repo", env=env0)
            res["demo_fails_with"] = rc != 0
            checks = [c for c in (sys.argv and DEFAULT.get(prop, [])) if c in claimed]
            extra = os.environ.get("EXTRA_CHECKS", "")
            checks += [c for c in extra.split(",") if c and c in claimed and c not in checks]
            res["checks"] = {}
            for c in checks:
                if res["checks"] and any(v["exit"] == 1 for v in res["checks"].values()) and os.environ.get("STOP_AT_FIRST", "1") == "1":
                    break
                rc, out = run([str(VERIF / "check"), c, "--tier", tier], cwd=VERIF, env=env0, timeout=3600)
                res["checks"][c] = {"exit": rc, "violations": out.count("VIOLATION property="), "machinery": "MACHINERY" in out}
            res["detected_by"] = [c for c, v in res["checks"].items() if v["exit"] == 1]
        finally:
            shutil.rmtree(tmp, ignore_errors=True)
        print(json.dumps(res), flush=True)


if __name__ == "__main__":
    main()
