#!/bin/sh
# tools/try_patch.sh <patch.diff> <property>...   — run checks against a scratch copy of /repo with the patch applied
# (the copies of /repo and of /verif live under a mktemp dir and are removed afterwards; neither /repo nor
# /verif's evidence/replays are touched; the TLC result cache is shared)
patch=$(realpath "$1"); shift
here=$(cd "$(dirname "$0")/.." && pwd)
tmp=$(mktemp -d /tmp/verif-mut-XXXXXX)
trap 'rm -rf "$tmp"' EXIT
mkdir -p "$tmp/repo" "$tmp/verif"
rsync -a --exclude .git --exclude __pycache__ /repo/ "$tmp/repo/"
rsync -a --exclude .git --exclude __pycache__ --exclude .cache --exclude replays --exclude seeded "$here/" "$tmp/verif/"
mkdir -p "$here/.cache"; ln -s "$here/.cache" "$tmp/verif/.cache"
(cd "$tmp/repo" && patch -p1 -s < "$patch") || { echo "patch failed"; exit 2; }
cd "$tmp/verif"
for p in "$@"; do
  PYTHONPATH="$tmp/repo/python" ./check "$p" --tier "${TIER:-quick}" 2>&1 | grep -E "^(OK|VIOLATION|KNOWN|MACHINERY)" | cut -c1-160 | head -3
  f=$(ls replays/$p/*.json 2>/dev/null | head -1)
  [ -n "$f" ] && [ -n "$SHOW" ] && /venv/bin/python -c "import json;d=json.load(open('$f'));print('   what:',d.get('what','')[:200])"
  echo "  -> $p done"
done
