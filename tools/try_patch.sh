#!/bin/sh
# tools/try_patch.sh <patch.diff> <property>...   — run checks against a scratch copy of /repo with the patch applied
# (the copy lives under a mktemp dir and is removed afterwards; /repo itself is not touched)
patch=$(realpath "$1"); shift
tmp=$(mktemp -d /tmp/verif-mut-XXXXXX)
trap 'rm -rf "$tmp"' EXIT
mkdir -p "$tmp/repo"
rsync -a --exclude .git --exclude __pycache__ /repo/ "$tmp/repo/"
(cd "$tmp/repo" && patch -p1 -s < "$patch") || { echo "patch failed"; exit 2; }
cd "$(dirname "$0")/.."
for p in "$@"; do
  PYTHONPATH="$tmp/repo/python" ./check "$p" --tier "${TIER:-quick}" 2>&1 | grep -E "^(OK|VIOLATION|KNOWN|MACHINERY)" | head -3
  echo "  -> $p exit=$?"
done
