#!/venv/bin/python
"""tools/import_seeds.py <results.jsonl>... : copy verified seeded changes into /verif/seeded/<id>/
with meta.json (which property, what it needs to manifest, what was run, which checks caught it)."""
import json, shutil, sys
from pathlib import Path

VERIF = Path(__file__).resolve().parent.parent
SRCS = [Path(p) for p in ("/tmp/seed/out", "/tmp/seed/out2", "/tmp/seed/out3", "/tmp/seed/out4", "/tmp/seed/out5", "/tmp/seed/out6")]

results = {}
for f in sys.argv[1:]:
    for line in open(f):
        r = json.loads(line)
        prev = results.get(r["seed"], {})
        merged = dict(prev, **r)
        merged["checks"] = dict(prev.get("checks", {}), **r.get("checks", {}))
        merged["detected_by"] = sorted(set(prev.get("detected_by", [])) | set(r.get("detected_by", [])))
        results[r["seed"]] = merged

for seed, r in sorted(results.items()):
    ok = r.get("applies") and r.get("tests_pass") and r.get("demo_fails_with") and r.get("demo_passes_without")
    if not ok:
        print("skipping (not confirmed):", seed, {k: r.get(k) for k in ("applies", "tests_pass", "demo_fails_with", "demo_passes_without")})
        continue
    SRC = next((p for p in SRCS if (p / seed / "patch.diff").exists()), None)
    if SRC is None:
        print("skipping (source not found):", seed)
        continue
    d = VERIF / "seeded" / seed
    d.mkdir(parents=True, exist_ok=True)
    for name in ("patch.diff", "demo.py", "notes.md"):
        if (SRC / seed / name).exists():
            shutil.copy(SRC / seed / name, d / name)
    notes = (SRC / seed / "notes.md").read_text() if (SRC / seed / "notes.md").exists() else ""
    meta = {
        "id": seed,
        "breaks_property": seed.split("_")[0],
        "origin": "written by a sub-agent that was given only the property text and a scratch worktree of /repo",
        "needs_to_manifest": notes.strip()[:1500],
        "confirmed": {
            "patch_applies_to_current_repo": True,
            "repository_tests_pass_with_change": "82 passed",
            "demo_passes_without_change": True,
            "demo_fails_with_change": True,
            "how": "tools/seedtest.py: scratch copy of /repo (rsync), patch -p1, pytest, demo.py with PYTHONPATH at the copy",
        },
        "checks_run": {c: ("VIOLATION" if v["exit"] == 1 else "ok" if v["exit"] == 0 else "machinery-failure") for c, v in r.get("checks", {}).items()},
        "detected_by": r.get("detected_by", []),
    }
    (d / "meta.json").write_text(json.dumps(meta, indent=1))
    print(seed, "detected_by", meta["detected_by"])
