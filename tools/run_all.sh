#!/bin/sh
# tools/run_all.sh [tier]  — run every claimed check once, print one line per property
cd "$(dirname "$0")/.."
tier=${1:-quick}
for p in $(/venv/bin/python -c "import json; print(' '.join(c['property_id'] for c in json.load(open('MANIFEST.json'))['checks']))"); do
  s=$(date +%s)
  out=$(./check $p --tier $tier 2>&1); rc=$?
  e=$(date +%s)
  echo "$p exit=$rc $((e-s))s $(echo "$out" | grep -c '^VIOLATION') violations $(echo "$out" | grep -c '^KNOWN-FINDING') known $(echo "$out" | grep -c '^DRIFT') drift $(echo "$out" | grep MACHINERY | head -1 | cut -c1-150)"
done
