#!/bin/sh
# tools/revert_test.sh <fix-commit> <property>...  — the defect a "fix:" commit repaired must be reported again when it returns:
# scratch copy of /repo with that commit's source change reverted, checks run from a scratch copy of /verif
# (neither /repo nor /verif's evidence/replays are touched; the TLC result cache is shared)
c=$1; shift
here=$(cd "$(dirname "$0")/.." && pwd)
tmp=$(mktemp -d /tmp/verif-rev-XXXXXX)
trap 'rm -rf "$tmp"' EXIT
mkdir -p "$tmp/repo" "$tmp/verif"
rsync -a --exclude .git --exclude __pycache__ /repo/ "$tmp/repo/"
rsync -a --exclude .git --exclude __pycache__ --exclude .cache --exclude replays --exclude seeded "$here/" "$tmp/verif/"
mkdir -p "$here/.cache"; ln -s "$here/.cache" "$tmp/verif/.cache"
git -C /repo show "$c" -- python > "$tmp/fix.diff"
(cd "$tmp/repo" && patch -R -p1 -s < "$tmp/fix.diff") || { echo "REVERT FAILED $c"; exit 2; }
(cd "$tmp/repo" && PYTHONPATH=$tmp/repo/python /venv/bin/python -m pytest -q -p no:cacheprovider tests 2>&1 | tail -1)
cd "$tmp/verif"
for p in "$@"; do
  out=$(PYTHONPATH="$tmp/repo/python" ./check "$p" 2>&1); rc=$?
  echo "revert $c check $p exit=$rc $(echo "$out" | grep -c '^VIOLATION') violations"
done
