"""Binding B runner: hand recorded events to a TLC trace specification.

Every Trace*.tla module reads an ndjson file (env TRACE_FILE), judges each
event, prints `<<"TV", json>>` for a violated clause, `<<"TK", json>>` for an
event matching an open known finding, and `<<"TVDONE", n>>` when every event
has been consumed.  Verdicts are total: a rejected event never stops the
batch.  A batch that does not reach TVDONE is a machinery failure.
Batches are independent and are judged by several TLC processes in parallel
(each single-worker, as the trace specs require).
"""
from __future__ import annotations

import json
import os
import shutil
import subprocess
import tempfile
from concurrent.futures import ThreadPoolExecutor
from pathlib import Path

from .core import MachineryError
from .tlc import SPEC, _unescape, java_cmd

PARALLEL = int(os.environ.get("VERIF_TRACE_JVMS", "8"))
_seen_td: set = set()
LAST_COUNTS: dict = {}      # counts of other tagged output lines (e.g. "TD") of the last validate() call


def _run_batch(module: str, scratch: Path, k: int, chunk: list[dict], heap: str, timeout: int) -> list[dict]:
    tf = scratch / f"trace{k}.ndjson"
    with open(tf, "w") as f:
        for i, ev in enumerate(chunk):
            ev = dict(ev)
            ev["id"] = k + i
            f.write(json.dumps(ev) + "\n")
    cmd = java_cmd(heap) + ["-workers", "1", "-metadir", str(scratch / f"meta{k}"), "-noGenerateSpecTE",
                            "-config", str(scratch / "Trace.cfg"), module]
    env = dict(os.environ, TRACE_FILE=str(tf))
    p = subprocess.run(cmd, cwd=SPEC, capture_output=True, text=True, env=env, timeout=timeout)
    done = False
    verdicts = []
    for line in p.stdout.splitlines():
        if line.startswith('<<"TD"'):
            _seen_td.add(line)
            LAST_COUNTS["TD"] = len(_seen_td)
        if line.startswith('<<"TVDONE"'):
            done = True
        elif line.startswith('<<"TV", "') or line.startswith('<<"TK", "'):
            tag = line[3:5]
            payload = json.loads(_unescape(line[len('<<"TV", "') : -len('">>')]))
            payload["tag"] = tag
            payload["event"] = chunk[payload["id"] - k]
            verdicts.append(payload)
    if not done:
        dbg = os.environ.get("VERIF_TRACE_DEBUG")
        if dbg:
            with open(dbg, "w") as f:
                f.write(p.stdout)
            shutil.copy(tf, dbg + ".ndjson")
        raise MachineryError(
            f"{module} did not consume the whole batch (TLC output tail):\n{p.stdout[-3000:]}\n{p.stderr[-1500:]}"
        )
    shutil.rmtree(scratch / f"meta{k}", ignore_errors=True)
    tf.unlink()
    return verdicts


def validate(module: str, events: list[dict], batch: int = 5000, heap: str = "1g", timeout: int = 3600) -> list[dict]:
    """Return verdict records [{'tag': 'TV'|'TK', 'event': <event>, ...payload}]."""
    LAST_COUNTS.clear()
    _seen_td.clear()
    if not events:
        return []
    scratch = Path(tempfile.mkdtemp(prefix="verif-trace-"))
    try:
        (scratch / "Trace.cfg").write_text("SPECIFICATION Spec\nCHECK_DEADLOCK FALSE\n")
        # balance the batches over the available JVMs
        per = max(200, min(batch, -(-len(events) // PARALLEL)))
        jobs = [(k, events[k : k + per]) for k in range(0, len(events), per)]
        with ThreadPoolExecutor(max_workers=PARALLEL) as pool:
            results = list(pool.map(lambda j: _run_batch(module, scratch, j[0], j[1], heap, timeout), jobs))
        return [v for r in results for v in r]
    finally:
        shutil.rmtree(scratch, ignore_errors=True)
