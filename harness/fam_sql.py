"""Family 'sql' — SqlProgram.tla replayed into the real SQL engine and SQLite.

Per emitted TLC state (table contents + call history + oracle):
  C02  rows returned by SQLite for engine.to_executable(rel) == TLC's
       reference rows as a bag whenever TLC says the bag is determined, for
       both physical scan orders (PRAGMA reverse_unordered_selects off/on)
  C08  construction accepted => compiles and executes (no KeyError,
       NotImplementedError, database error)
  C11  list equality whenever TLC says the outermost level is totally
       sorted; requests that would bury a sort are refused (rejects)
  C17  engine.conform(rel) is rel; real trees judged coherent by TLC
  C06  columns/bounds/flags vs real execution;  C14 no-op identity, wf
  C16  diagnostics with a really-executing executor
  C20  refused requests raise the documented class
"""
from __future__ import annotations

import json
import os
import time
from collections import Counter

from . import build, project, tracecheck
from .core import trim, MachineryError, Part, merge_worker_outputs, parallel_replay
from .fam_iter import EXC, canon_tree, fingerprint, full_tree, is_noop_call
from .tlc import run_tlc

_st: dict = {}

TABLES = {"T1": ("a", "b"), "T2": ("a", "c"), "T3": ("a", "b")}


def db():
    """Per-process SQLite connection with tables t1,t2,t3."""
    if "db" in _st:
        return _st["db"]
    import sqlalchemy

    eng = sqlalchemy.create_engine("sqlite://")
    md = sqlalchemy.MetaData()
    tables = {}
    for name, cols in TABLES.items():
        tables[name] = sqlalchemy.Table(
            name.lower(), md, sqlalchemy.Column("rid", sqlalchemy.Integer, primary_key=True),
            *[sqlalchemy.Column(c, sqlalchemy.Integer) for c in cols])
    md.create_all(eng)
    conn = eng.connect()
    _st["db"] = (conn, tables, {})
    return _st["db"]


def load_table(name: str, rows: list) -> None:
    conn, tables, current = db()
    key = json.dumps(rows, sort_keys=True)
    if current.get(name) == key:
        return
    t = tables[name]
    conn.execute(t.delete())
    if rows:
        conn.execute(t.insert(), [dict(r, rid=i + 1) for i, r in enumerate(rows)])
    current[name] = key


def engines():
    if "engines" not in _st:
        from lsst.daf.relation import iteration, sql

        _st["engines"] = {"sql": sql.Engine(name="sql"), "it1": iteration.Engine(name="it1")}
    return _st["engines"]


class PredicateMutated(Exception):
    """A factory call changed a predicate object handed to it (relations and expressions are immutable values)."""


class World:
    def __init__(self, st: dict):
        from lsst.daf.relation import LeafRelation
        from lsst.daf.relation.iteration import RowSequence
        from lsst.daf.relation.sql import Payload

        self.st = st
        conn, tables, _ = db()
        load_table("T1", st["t1"])
        load_table("T2", st["t2"])
        load_table("T3", st["t3"])
        eng = engines()
        self.sql = eng["sql"]

        self._alias = 0

        def leaf(name, mn, mx, alias=False):
            t = tables[name]
            if alias:
                # every further occurrence of a table gets its own alias, as a
                # user of the SQL engine must do for self-joins
                self._alias += 1
                t = t.alias(f"{name.lower()}_{self._alias}")
            cols = TABLES[name]
            payload = Payload(t, columns_available={build.tag(c): t.c[c] for c in cols})
            return self.sql.make_leaf(build.tags(cols, reverse=(name == "T3")), payload, name=name, min_rows=mn, max_rows=None if mx == -1 else mx)

        self.leaves = {
            "T1": leaf("T1", st["lmin"], st["lmax"]),
            "T2": leaf("T2", 0, -1),
            "T3": leaf("T3", 4, 4),
        }
        self._leaf = leaf
        self.leaves["X"] = LeafRelation(eng["it1"], build.tags(("a", "b")), RowSequence([{}]), name="X", min_rows=1, max_rows=1)
        self._operands: dict = {}

    OPERANDS = {
        "T2": ("T2", []),
        "T2pa": ("T2", [{"o": "proj", "cols": ["a"]}]),
        "T2dd": ("T2", [{"o": "proj", "cols": ["a"]}, {"o": "dedup"}]),
        "T2sel": ("T2", [{"o": "sel", "p": {"p": "cmp", "f": "eq", "l": {"x": "ref", "c": "c"}, "r": {"x": "lit", "v": 1}}}]),
        "T3": ("T3", []),
        "T3pa": ("T3", [{"o": "proj", "cols": ["a"]}]),
        "T3sel": ("T3", [{"o": "sel", "p": {"p": "cmp", "f": "eq", "l": {"x": "ref", "c": "a"}, "r": {"x": "lit", "v": 1}}}]),
        "T3dd": ("T3", [{"o": "dedup"}]),
        "T3dp": ("T3", [{"o": "dedup"}, {"o": "proj", "cols": ["a"]}]),
        "T3ss": ("T3", [{"o": "sort", "terms": [{"e": {"x": "ref", "c": "a"}, "asc": True}, {"e": {"x": "ref", "c": "b"}, "asc": False}]},
                        {"o": "slice", "a": 0, "b": 2}]),
        "T3so": ("T3", [{"o": "sort", "terms": [{"e": {"x": "ref", "c": "a"}, "asc": True}, {"e": {"x": "ref", "c": "b"}, "asc": False}]}]),
        "T3cal": ("T3", [{"o": "calc", "tag": "f", "e": {"x": "fn", "f": "add", "args": [{"x": "ref", "c": "a"}, {"x": "ref", "c": "b"}]}},
                         {"o": "proj", "cols": ["a", "f"]}]),
    }

    def operand(self, name: str):
        if name == "X":
            return self.leaves["X"]
        if name == "Z":
            return self.sql.make_doomed_relation(build.tags(("a", "b")), ["statically empty"], name="Z")
        if name == "Z0":
            return self.sql.make_doomed_relation(frozenset(), ["statically empty, no columns"], name="Z0")
        if name == "I":
            return self.sql.make_join_identity_relation(name="I")
        fresh = {"T2": lambda: self._leaf("T2", 0, -1, alias=True), "T3": lambda: self._leaf("T3", 4, 4, alias=True)}
        if name == "T3cc":
            return fresh["T3"]().chain(fresh["T3"]())
        base, ops_ = self.OPERANDS[name]
        r = fresh[base]()
        for o in ops_:
            r = self.call({"f": "un", "op": o}, r)
        return r

    def call(self, c: dict, rel):
        f = c["f"]
        if f == "un":
            o = c["op"]
            k = o["o"]
            if k == "calc":
                return rel.with_calculated_column(build.tag(o["tag"]), build.expr(o["e"]))
            if k == "proj":
                return rel.with_only_columns(build.tags(o["cols"], reverse=True))
            if k == "sel":
                return rel.with_rows_satisfying(build.pred(o["p"]))
            if k == "dedup":
                return rel.without_duplicates()
            if k == "sort":
                return rel.sorted(build.sort_terms(o["terms"]))
            if k == "slice":
                return rel[o["a"] : (None if o["b"] == -1 else o["b"])]
        if f == "getitem":
            return rel[c["a"] : (None if c["b"] == -1 else c["b"]) : c["step"]]
        if f == "join":
            p = c["p"]
            pred = None if p == {"p": "lit", "v": True} else build.pred(p)
            before = None if pred is None else frozenset(pred.columns_required)
            res = rel.join(self.operand(c["rhs"]), pred)
            if pred is not None and frozenset(pred.columns_required) != before:
                raise PredicateMutated(f"the join changed its predicate's columns_required from {sorted(map(str, before))} "
                                       f"to {sorted(map(str, pred.columns_required))}")
            return res
        if f == "joinl":
            return self.operand(c["lhs"]).join(rel)
        if f == "pjoinl":
            from lsst.daf.relation import Predicate
            from lsst.daf.relation import _operations as ops
            return ops.Join(Predicate.literal(True)).partial(self.operand(c["lhs"]), is_lhs=True).apply(rel)
        if f == "joinself":
            return rel.join(rel)
        if f == "pjoinmx":
            from lsst.daf.relation import _operations as ops
            return ops.Join(max_columns=frozenset(build.tags(c["mx"]))).partial(self.operand(c["rhs"])).apply(rel)
        if f == "joinmx":
            from lsst.daf.relation import _operations as ops
            return ops.Join(min_columns=frozenset(build.tags(c["mn"])), max_columns=frozenset(build.tags(c["mx"]))).apply(rel, self.operand(c["rhs"]))
        if f == "chain":
            return rel.chain(self.operand(c["rhs"]))
        if f == "chainl":
            return self.operand(c["lhs"]).chain(rel)
        if f == "xfer":
            return rel.transferred_to(engines()[c["dest"]])
        raise MachineryError(f"unknown call {c}")

    def build_raw(self):
        """The same operation sequence assembled bottom-up with the plain
        constructors (no engine help); binary operands are API-built relations."""
        from lsst.daf.relation import BinaryOperationRelation, UnaryOperationRelation
        from lsst.daf.relation import _operations as ops

        t = self.leaves["T1"].skip_to     # the bare LeafRelation
        for k, c in enumerate(self.st["hist"]):
            f = c["f"]
            if k == 0 and f not in ("un", "xfer"):
                # a raw binary node over two operands that are ALREADY conformed (Select markers)
                t = self.leaves["T1"]
            if f == "un":
                op = build.unary_op(c["op"])
                t = UnaryOperationRelation(operation=op, target=t, columns=frozenset(op.applied_columns(t)))
            elif f in ("join", "joinl", "pjoinl", "joinself", "joinmx", "pjoinmx"):
                other = t if f == "joinself" else self.operand(c["rhs"] if f in ("join", "joinmx", "pjoinmx") else c["lhs"])
                lhs, rhs = (t, other) if f not in ("joinl", "pjoinl") else (other, t)
                common = frozenset(x for x in lhs.columns & rhs.columns if x.is_key)
                if f in ("joinmx", "pjoinmx"):
                    common = common & frozenset(build.tags(c["mx"]))
                p = c.get("p", {"p": "lit", "v": True})
                jop = ops.Join(build.pred(p), min_columns=common, max_columns=common)
                t = BinaryOperationRelation(operation=jop, lhs=lhs, rhs=rhs, columns=frozenset(lhs.columns | rhs.columns))
            elif f in ("chain", "chainl"):
                other = self.operand(c["rhs"] if f == "chain" else c["lhs"])
                lhs, rhs = (t, other) if f == "chain" else (other, t)
                t = BinaryOperationRelation(operation=ops.Chain(), lhs=lhs, rhs=rhs, columns=frozenset(lhs.columns))
            elif f == "xfer":
                pass
            else:
                raise MachineryError(f"raw: unknown call {c}")
        return t

    def build(self):
        rel = self.leaves["T1"]
        breaks = []
        for i, c in enumerate(self.st["hist"]):
            before = rel
            rel = self.call(c, rel)
            if is_noop_call(c, before) and rel is not before:
                breaks.append(i)
        return rel, breaks


def run_sql(engine, rel, reverse: bool):
    """Compile with the real engine and run on SQLite; rows as dicts name->int."""
    conn, _, _ = db()
    conn.exec_driver_sql(f"PRAGMA reverse_unordered_selects = {'ON' if reverse else 'OFF'}")
    executable = engine.to_executable(rel)
    names = [t.qualified_name for t in rel.columns]
    out = []
    for row in conn.execute(executable).mappings():
        out.append({n: row[n] for n in names})
    return out


def stmt_shape(ex) -> dict:
    """Coarse, alias-free shape of a real SQLAlchemy statement (the counterpart of
    RA_SqlCompile!Shape): nesting of selects / unions / joins / subqueries, DISTINCT,
    presence of WHERE / ON, ORDER BY directions, OFFSET, LIMIT, output column names."""
    from sqlalchemy.sql import elements, operators, selectable

    def order_of(e):
        out = []
        for c in e._order_by_clauses:
            if isinstance(c, elements._label_reference):      # ORDER BY of a compound select refers to labels
                c = c.element
            desc = isinstance(c, elements.UnaryExpression) and c.modifier is operators.desc_op
            out.append(not desc)
        return out

    def off_lim(e):
        off = e._offset if e._offset_clause is not None else 0
        lim = e._limit if e._limit_clause is not None else -1
        return int(off or 0), int(lim)

    def from_shape(f):
        if isinstance(f, selectable.Join):
            on = f.onclause
            inner = getattr(on, "element", on)       # literal(True) is wrapped in AsBoolean
            trivial = isinstance(on, elements.True_) or (isinstance(inner, elements.BindParameter) and inner.value is True)
            return {"f": "join", "l": from_shape(f.left), "r": from_shape(f.right), "on": not trivial}
        if isinstance(f, selectable.Subquery):
            inner = f.element
            if isinstance(inner, selectable.Select) and not inner.get_final_froms():
                return {"f": "table", "id": "lit"}          # SELECT <literals>: engine-made doomed / identity payload
            return {"f": "subq", "s": stmt_shape(inner)}
        if isinstance(f, selectable.FromGrouping):       # a parenthesised join on the right-hand side of a join
            return from_shape(f.element)
        if isinstance(f, selectable.Alias):
            return from_shape(f.element)
        if isinstance(f, selectable.TableClause):
            return {"f": "table", "id": f.name.upper()}
        return {"f": type(f).__name__}

    if isinstance(ex, selectable.CompoundSelect):
        a, b = ex.selects
        off, lim = off_lim(ex)
        return {"q": "union", "all": ex.keyword.name == "UNION_ALL", "l": stmt_shape(a), "r": stmt_shape(b),
                "order": order_of(ex), "off": off, "lim": lim}
    froms = ex.get_final_froms()
    off, lim = off_lim(ex)
    return {"q": "select", "cols": sorted(k for k in ex.selected_columns.keys() if k != "IGNORED"),
            "from": from_shape(froms[0]) if froms else {"f": "table", "id": "lit"},
            "where": ex.whereclause is not None, "distinct": bool(ex._distinct), "order": order_of(ex), "off": off, "lim": lim}


def norm_model_shape(s):
    if isinstance(s, dict):
        out = {k: norm_model_shape(v) for k, v in s.items()}
        if out.get("f") == "table" and out.get("id") in ("Z", "Z0", "I"):
            out["id"] = "lit"
        if "cols" in out and isinstance(out["cols"], list):
            out["cols"] = sorted(out["cols"])
        return out
    if isinstance(s, list):
        return [norm_model_shape(v) for v in s]
    return s


def bag(rows):
    return Counter(json.dumps(r, sort_keys=True) for r in rows)


def brief(st):
    return {k: st[k] for k in ("t1", "t2", "t3", "bnd", "lmin", "lmax", "hist")}


def replay_state(st: dict, out: dict, want_event: bool, want_rejects: bool = True, want_raw: bool = True) -> None:
    from lsst.daf.relation import Diagnostics

    case = brief(st)
    viol = out["violations"]
    cnt = out["counters"]
    exp = [r if isinstance(r, dict) else {} for r in st["rows"]]

    def V(props, what, **kw):
        viol.append({"properties": props, "family": "sql", "what": what, "case": case, **kw})

    try:
        w = World(st)
        rel, breaks = w.build()
    except PredicateMutated as exc:
        V(["C09", "C13", "C20", "C14"], f"a factory call is not side-effect free: {exc}")
        return
    except Exception as exc:  # noqa: BLE001
        V(["C02", "C08", "C05", "C14"], f"a call sequence accepted by the specification raised {type(exc).__name__} at construction: {exc}")
        return
    if breaks:
        V(["C14"], "a documented no-op call did not return the relation itself", calls=breaks)
    try:
        hash(rel)
    except TypeError as exc:
        V(["C09"], f"a relation built by the factories is not hashable: {exc}", relation=str(rel))
    # ---- structure
    real_tree = project.tree(rel)
    same_shape = canon_tree(project.strip_sel_target(real_tree)) == canon_tree(project.strip_sel_target(st["tree"]))
    if not same_shape:
        out["n_drift"] += 1
        if len(out["drift"]) < 3:
            out["drift"].append({"what": "tree shape differs from the model", "case": case,
                                 "real": canon_tree(project.strip_sel_target(real_tree)),
                                 "model": canon_tree(project.strip_sel_target(st["tree"]))})
    bad = _compound_flags(real_tree)
    if bad:
        V(["C17"], "a SELECT marker's is_compound flag disagrees with its skip target being a chain", nodes=bad[:2])
    # ---- conform idempotent
    try:
        if w.sql.conform(rel) is not rel:
            V(["C17"], "conform() of a relation produced by the factories is not the identity")
    except Exception as exc:  # noqa: BLE001
        V(["C17", "C08"], f"conform() raised {type(exc).__name__}: {exc}")
    # ---- compile and run, both scan orders
    results = []
    if st["nested"]:
        cnt["sqlite_nested_compound_skipped"] = cnt.get("sqlite_nested_compound_skipped", 0) + 1
        try:
            str(w.sql.to_executable(rel))
        except Exception as exc:  # noqa: BLE001
            V(["C08"], f"compilation raised {type(exc).__name__}: {exc}")
    else:
        try:
            real_shape = stmt_shape(w.sql.to_executable(rel))
            if real_shape != norm_model_shape(st["shape"]):
                out["n_drift"] += 1
                cnt["statement_shape_drift"] = cnt.get("statement_shape_drift", 0) + 1
                if len(out["drift"]) < 3:
                    out["drift"].append({"what": "compiled statement differs in shape from the compilation model", "case": case,
                                         "real": real_shape, "model": norm_model_shape(st["shape"])})
        except Exception:  # noqa: BLE001 - reported below by the execution step
            pass
        for reverse in (False, True):
            try:
                results.append(run_sql(w.sql, rel, reverse))
            except Exception as exc:  # noqa: BLE001
                V(["C08", "C02"], f"a tree accepted at construction failed to compile/execute: {type(exc).__name__}: {str(exc)[:300]}",
                  reverse_unordered_selects=reverse)
                break
    m = project.meta(rel)
    mm = st["meta"]
    if sorted(mm["cols"]) != m["cols"]:
        V(["C06", "C02"], "relation.columns differs from the columns of the applied operation sequence", observed=m["cols"], expected=sorted(mm["cols"]))
    elif (m["min"], m["max"], m["trivial"], m["jid"]) != (mm["min"], mm["max"], mm["trivial"], mm["jid"]):
        out["n_drift"] += 1
        if len(out["drift"]) < 3:
            out["drift"].append({"what": "bounds/flags differ from the model", "case": case, "real": m, "model": mm})
    # when the real tree differs from the model's, the model's determinacy verdict still speaks about the
    # OPERATION SEQUENCE: if TLC found the multiset (the list) determined, any correct tree must return it
    # (a real tree that is itself less determined - e.g. a LIMIT moved below its ORDER BY - is no excuse)
    judged = same_shape or st["det"]
    for i, got in enumerate(results):
        if len(got) < rel.min_rows or (rel.max_rows is not None and len(got) > rel.max_rows):
            V(["C06"], f"row count {len(got)} returned by the database outside [min_rows={rel.min_rows}, max_rows={rel.max_rows}]", reverse_unordered_selects=bool(i))
        if rel.is_join_identity and got != [{}]:
            V(["C06"], "is_join_identity set but content is not one empty row")
        if not judged:
            cnt["rows_not_judged_shape_drift"] = cnt.get("rows_not_judged_shape_drift", 0) + 1
            continue
        if st["det"]:
            cnt["bag_compared"] = cnt.get("bag_compared", 0) + 1
            if bag(got) != bag(exp):
                V(["C02"], "rows returned by the database differ (as a multiset) from direct evaluation of the applied operation sequence",
                  observed=got, expected=exp, reverse_unordered_selects=bool(i))
        else:
            cnt["bag_undetermined"] = cnt.get("bag_undetermined", 0) + 1
        if st["ord"]:
            cnt["list_compared"] = cnt.get("list_compared", 0) + 1
            if got != exp:
                V(["C11"], "the database returned the rows of a totally sorted relation in a different order (or a different slice window)",
                  observed=got, expected=exp, reverse_unordered_selects=bool(i))
    # ---- diagnostics (only meaningful when the content is determined)
    if st["det"] and results and judged:
        try:
            d0 = Diagnostics.run(rel)
            d1 = Diagnostics.run(rel, lambda r: len(run_sql(w.sql, r, False)) > 0)
            empty = not exp
            if d0.is_doomed and not empty:
                V(["C16"], "Diagnostics (no executor) dooms a relation that has rows", messages=d0.messages)
            if d1.is_doomed != empty:
                V(["C16"], f"Diagnostics with a truthful executor says doomed={d1.is_doomed} but the relation has {len(exp)} rows", messages=d1.messages)
            if (d0.is_doomed and not d0.messages) or (d1.is_doomed and not d1.messages):
                V(["C16"], "a doomed verdict carries no message")
        except Exception as exc:  # noqa: BLE001
            V(["C16"], f"Diagnostics.run raised {type(exc).__name__}: {exc}")
    # ---- refused requests
    for rj in (st["rejects"] if want_rejects else ()):
        c = rj["call"]
        fp = fingerprint(rel)
        expected = {EXC[rj["err"]]}
        try:
            res = w.call(c, rel)
            V(["C20"] + (["C11"] if rj["err"] == "OrderLoss" else []) + (["C14"] if rj["err"] == "EngineError" else []),
              "a request that must be refused returned a relation", request=c, expected=sorted(expected), returned=str(res))
            # whatever the factories accept must compile and execute (C08): a request the specification
            # refuses but the code accepts is judged on that as well
            if isinstance(getattr(res, "engine", None), type(w.sql)):
                try:
                    run_sql(w.sql, res, False)
                except Exception as exc2:  # noqa: BLE001
                    if not ('near "(": syntax error' in str(exc2) and nested_compound(project.tree(res))):
                        V(["C08"], f"a request accepted at construction (the specification refuses it: {rj['err']}) fails later with "
                                   f"{type(exc2).__name__}: {str(exc2)[:160]}", request=c)
        except Exception as exc:  # noqa: BLE001
            if type(exc).__name__ not in expected:
                V(["C20"] + (["C11"] if rj["err"] == "OrderLoss" else []),
                  f"a refused request raised {type(exc).__name__} instead of the documented class",
                  request=c, expected=sorted(expected), message=str(exc)[:200])
        if fingerprint(rel) != fp:
            V(["C20", "C09"], "a rejected request changed an existing relation", request=c)
        cnt["rejects_checked"] = cnt.get("rejects_checked", 0) + 1
    # ---- C17: conform of the raw (engine-less) tree for the same operation sequence
    if want_raw:
        try:
            w2 = World(st)
            raw = w2.build_raw()
            try:
                conf = w2.sql.conform(raw)
                conf_err = None
            except Exception as exc:  # noqa: BLE001
                conf, conf_err = None, exc
            model_err = st["rawconf"].get("err") if isinstance(st["rawconf"], dict) else None
            if conf_err is not None:
                if type(conf_err).__name__ != "RelationalAlgebraError":
                    V(["C17", "C08"], f"conform() of a well-formed raw tree raised {type(conf_err).__name__}: {str(conf_err)[:200]}")
                elif model_err is None:
                    out["n_drift"] += 1
            else:
                if w2.sql.conform(conf) is not conf:
                    V(["C17"], "conform() of an already conformed tree did not return the same object")
                bad2 = _compound_flags(project.tree(conf))
                if bad2:
                    V(["C17"], "is_compound flag of a conformed raw tree disagrees with its skip target", nodes=bad2[:2])
                raw_same = model_err is None and canon_tree(project.strip_sel_target(project.tree(conf))) == canon_tree(project.strip_sel_target(st["rawconf"]))
                if not raw_same:
                    out["n_drift"] += 1
                    if len(out["drift"]) < 3:
                        out["drift"].append({"what": "conformed raw tree differs from the model", "case": case})
                if not st["rawnested"] and st["rawdet"]:
                    for reverse in (False, True):
                        got = run_sql(w2.sql, conf, reverse)
                        cnt["raw_bag_compared"] = cnt.get("raw_bag_compared", 0) + 1
                        if bag(got) != bag(exp):
                            V(["C17", "C02"], "rows of the conformed raw tree differ (as a multiset) from direct evaluation of the raw tree",
                              observed=got, expected=exp, reverse_unordered_selects=reverse)
                if want_event or not raw_same:
                    out["events"].append({"tree": full_tree(conf), "env": {"T1": st["t1"], "T2": st["t2"], "T3": st["t3"], "Z": [], "Z0": [], "I": [[]]},
                                          "rows": st["rows"], "bag": True, "checks": ["wf", "coh", "denbag"], "case": dict(case, raw=True)})
        except MachineryError:
            raise
        except Exception as exc:  # noqa: BLE001
            V(["C17", "C08"], f"building/conforming/executing the raw tree raised {type(exc).__name__}: {str(exc)[:300]}")
    if want_event or not same_shape:
        out["events"].append({"tree": full_tree(rel), "env": {"T1": st["t1"], "T2": st["t2"], "T3": st["t3"], "Z": [], "Z0": [], "I": [[]]},
                              "rows": st["rows"], "bag": True,
                              "checks": ["wf", "meta", "coh", "denbag", "denlist"], "case": case})


def nested_compound(t) -> bool:
    """A chain one of whose operands is itself a bare compound select: SQLAlchemy
    renders `(SELECT .. UNION ALL SELECT ..) UNION ALL ..`, which SQLite cannot
    parse (environment limit, not a property of the library)."""
    if isinstance(t, dict):
        if t.get("k") == "bin" and t["op"].get("o") == "chain":
            for x in (t["l"], t["r"]):
                if x.get("k") == "sel" and x["skip"].get("k") == "bin" and x["skip"]["op"].get("o") == "chain" \
                        and x["a"] == 0 and x["b"] == -1 and not x["sort"]:
                    return True
        return any(nested_compound(v) for v in t.values())
    if isinstance(t, list):
        return any(nested_compound(v) for v in t)
    return False


def _compound_flags(t) -> list:
    bad = []
    if isinstance(t, dict):
        if t.get("k") == "sel":
            sk = t["skip"]
            is_chain = sk.get("k") == "bin" and sk["op"].get("o") == "chain"
            if bool(t.get("compound")) != is_chain:
                bad.append({"compound": t.get("compound"), "skip": sk.get("k")})
        for v in t.values():
            bad += _compound_flags(v)
    elif isinstance(t, list):
        for v in t:
            bad += _compound_flags(v)
    return bad


def _has_slice(t) -> bool:
    if isinstance(t, dict):
        if t.get("k") == "sel" and (t["a"] != 0 or t["b"] != -1):
            return True
        if t.get("k") == "un" and t["op"].get("o") == "slice":
            return True
        return any(_has_slice(v) for v in t.values())
    if isinstance(t, list):
        return any(_has_slice(v) for v in t)
    return False


def worker(lines, ctx):
    out = {"n": 0, "nontrivial": 0, "violations": [], "counters": {}, "samples": [], "events": [], "n_drift": 0, "drift": []}
    every = ctx.get("event_every", 1)
    for i, ln in enumerate(lines):
        st = json.loads(ln)
        out["n"] += 1
        if st["fired"]:
            out["nontrivial"] += 1
        replay_state(st, out, want_event=(i % every == 0), want_rejects=(i % ctx.get("rejects_every", 1) == 0),
                     want_raw=(i % ctx.get("raw_every", 1) == 0))
        if len(out["violations"]) > 60:
            out["violations"] = trim(out["violations"])
        if len(out["samples"]) < 1 and st["fired"] and len(st["hist"]) >= 2:
            out["samples"].append({"t1": st["t1"], "hist": st["hist"], "expected_rows": st["rows"], "det": st["det"], "ord": st["ord"]})
    return out


CLAUSE_PROPS = {"wf": ["C14"], "den": ["C02"], "denbag": ["C02", "C17"], "denlist": ["C11"], "meta": ["C06"], "coh": ["C17"]}

CONFIGS = {
    "quick": [("SqlQuick.cfg", 6), ("SqlFocusQ.cfg", 4), ("SqlChainQ.cfg", 4), ("SqlJoinQ.cfg", 4), ("SqlSortSliceQ.cfg", 4)],
    "thorough": [("SqlQuick.cfg", 2), ("SqlJoinQ.cfg", 2), ("SqlSortSliceQ.cfg", 1), ("SqlFocus.cfg", 4), ("SqlChain.cfg", 4), ("SqlGeneral.cfg", 8)],
    # thorough plan for the properties this family serves in second place
    "thorough-lite": [("SqlQuick.cfg", 1), ("SqlJoinQ.cfg", 1), ("SqlChain.cfg", 2)],
}


def run(tier: str, seed: int) -> list[Part]:
    from .fam_iter import judge_trees

    parts = []
    plan = CONFIGS[tier]
    if tier == "thorough" and os.environ.get("VERIF_FOCUS", "") in ("C06", "C14", "C16", "C20"):
        plan = CONFIGS["thorough-lite"]
    for cfg, every in plan:
        t0 = time.time()
        res = run_tlc("MC_Sql.tla", cfg, heap="6g" if tier == "thorough" else "3g", timeout=7200)
        if res.violated:
            raise MachineryError(f"model-level violation of {res.violated} in {cfg}:\n{res.error_text}")
        part = Part(name=f"sqlprogram:{cfg}", cfg=cfg, states=res.distinct, transitions=res.generated)
        t1 = time.time()
        focus = os.environ.get("VERIF_FOCUS", "")
        quick = tier == "quick"
        ctx = {"event_every": every * (2 if quick and focus in ("C16", "C20") else 1),
               "rejects_every": (4 if focus in ("C20", "C11", "C08") else 12) if quick else 1,
               # the raw-tree conform pass bears on C17 (and on C02/C08 through its rows)
               "raw_every": (2 if focus == "C17" else 6 if focus in ("C02", "C08") else 10**9) if quick else 1}
        outs = parallel_replay(worker, res.raw_lines(), ctx=ctx, chunk=200)
        merge_worker_outputs(part, outs)
        t2 = time.time()
        events = [ev for o in outs for ev in o.get("events", [])]
        judge_trees(events, part, "sql", CLAUSE_PROPS)
        part.counters["replay_wall_s"] = round(t2 - t1, 1)
        part.counters["trace_wall_s"] = round(time.time() - t2, 1)
        part.counters["tlc_wall_s"] = res.wall_s
        part.wall_s = time.time() - t0
        parts.append(part)
    if tier == "thorough":
        import random

        t0 = time.time()
        res = run_tlc("MC_Sql.tla", "SqlSim6.cfg", simulate="num=20", seed=seed, extra_args=["-depth", "8"], heap="4g", timeout=7200)
        if res.violated:
            raise MachineryError(f"model-level violation of {res.violated} in SqlSim6.cfg (simulation):\n{res.error_text}")
        part = Part(name="sqlprogram:SqlSim6.cfg:simulate", cfg="SqlSim6.cfg", states=max(res.distinct, 1), transitions=max(res.generated, 1), exhaustive=False)
        lines = sorted(set(res.raw_lines()))
        random.Random(seed).shuffle(lines)
        lines = lines[:20000]
        outs = parallel_replay(worker, lines, ctx={"event_every": 6, "rejects_every": 20, "raw_every": 4}, chunk=200)
        merge_worker_outputs(part, outs)
        events = [ev for o in outs for ev in o.get("events", [])]
        judge_trees(events, part, "sql", CLAUSE_PROPS)
        part.notes.append(f"TLC -simulate num=20 -depth 8 seed {seed}: {len(lines)} distinct depth-6 histories replayed")
        part.wall_s = time.time() - t0
        parts.append(part)
    # companion: open finding F15 still occurs in the model
    t0 = time.time()
    kf = run_tlc("MC_Sql.tla", "SqlKF15.cfg", expect_violation=True, heap="3g")
    if kf.violated != "KF15Gone":
        raise MachineryError(f"companion SqlKF15 no longer violates KF15Gone (got {kf.violated})")
    p = Part(name="sqlprogram:F15-companion", cfg="SqlKF15.cfg", states=max(kf.distinct, 1), transitions=max(kf.generated, 1))
    p.notes.append("TLC counterexample re-derives F15: calculation then projection dropping the calculated column")
    p.wall_s = time.time() - t0
    parts.append(p)
    t0 = time.time()
    kf22 = run_tlc("MC_Sql.tla", "SqlKF22.cfg", expect_violation=True, heap="3g")
    if kf22.violated != "CompileTotal":
        raise MachineryError(f"companion SqlKF22 (Sort branch as at the pinned commit) no longer violates CompileTotal (got {kf22.violated})")
    p22 = Part(name="sqlprogram:F22-companion", cfg="SqlKF22.cfg", states=max(kf22.distinct, 1), transitions=max(kf22.generated, 1))
    p22.notes.append("with the pinned-commit rule TLC re-derives F22: a sort by an expression over a chain compiles to a UNION whose ORDER BY "
                     "is not one of its result columns (invalid SQL)")
    p22.wall_s = time.time() - t0
    parts.append(p22)
    t0 = time.time()
    kf23 = run_tlc("MC_Sql.tla", "SqlKF23.cfg", expect_violation=True, heap="3g")
    if kf23.violated != "CompileTotal":
        raise MachineryError(f"companion SqlKF23 (Deduplication branch as at the pinned commit) no longer violates CompileTotal (got {kf23.violated})")
    p23 = Part(name="sqlprogram:F23-companion", cfg="SqlKF23.cfg", states=max(kf23.distinct, 1), transitions=max(kf23.generated, 1))
    p23.notes.append("with the pinned-commit rule TLC re-derives F23: sort, projection dropping the sort column, deduplication compile to "
                     "SELECT DISTINCT ... ORDER BY <column that is not selected>")
    p23.wall_s = time.time() - t0
    parts.append(p23)
    return parts
