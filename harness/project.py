"""Real lsst.daf.relation objects  ->  abstract (TLA+/JSON) syntax.

A plain structural walk (no interpretation): the inverse of `build.py`.
Engines are named by their ``name`` attribute; leaves by their ``name``.
"""
from __future__ import annotations

from typing import Any

from lsst.daf.relation import (
    BinaryOperationRelation,
    ColumnExpressionSequence,
    ColumnFunction,
    ColumnInContainer,
    ColumnLiteral,
    ColumnRangeLiteral,
    ColumnReference,
    Identity,
    LeafRelation,
    LogicalAnd,
    LogicalNot,
    LogicalOr,
    MarkerRelation,
    Materialization,
    PredicateFunction,
    PredicateLiteral,
    PredicateReference,
    Transfer,
    UnaryOperationRelation,
    iteration,
    sql,
)
from lsst.daf.relation import _operations as ops
from lsst.daf.relation._binary_operation import IgnoreOne
from lsst.daf.relation.sql._select import Select

from .build import CMP_BACK, FN_BACK


def _only(obj) -> dict:
    t = obj.supporting_engine_types
    if t is None:
        return {}
    if t == (sql.Engine,):
        return {"only": "sql"}
    if t == (iteration.Engine,):
        return {"only": "iter"}
    return {"only": "other"}


def cols(tagset) -> list[str]:
    return sorted(t.qualified_name for t in tagset)


def expr(e: Any) -> dict:
    match e:
        case ColumnReference(tag=tag):
            return {"x": "ref", "c": tag.qualified_name}
        case ColumnLiteral(value=value):
            return {"x": "lit", "v": value}
        case ColumnFunction(name=name, args=args):
            return {"x": "fn", "f": FN_BACK.get(name, name), "args": [expr(a) for a in args], **_only(e)}
    raise TypeError(f"cannot project expression {e!r}")


def container(k: Any) -> dict:
    match k:
        case ColumnRangeLiteral(value=r):
            return {"k": "range", "s": r.start, "t": r.stop, "st": r.step}
        case ColumnExpressionSequence(items=items):
            return {"k": "seq", "items": [expr(i) for i in items]}
    raise TypeError(f"cannot project container {k!r}")


def pred(p: Any) -> dict:
    match p:
        case PredicateLiteral(value=value):
            return {"p": "lit", "v": bool(value)}
        case PredicateReference(tag=tag):
            return {"p": "pref", "c": tag.qualified_name}
        case PredicateFunction(name=name, args=args) if name in CMP_BACK and len(args) == 2:
            return {"p": "cmp", "f": CMP_BACK[name], "l": expr(args[0]), "r": expr(args[1]), **_only(p)}
        case LogicalNot(operand=operand):
            return {"p": "not", "q": pred(operand)}
        case LogicalAnd(operands=operands):
            return {"p": "and", "qs": [pred(q) for q in operands]}
        case LogicalOr(operands=operands):
            return {"p": "or", "qs": [pred(q) for q in operands]}
        case ColumnInContainer(item=item, container=c):
            return {"p": "in", "e": expr(item), "k": container(c)}
    raise TypeError(f"cannot project predicate {p!r}")


def unary_op(o: Any, names=None) -> dict:
    match o:
        case ops.Calculation(tag=tag, expression=expression):
            return {"o": "calc", "tag": tag.qualified_name, "e": expr(expression)}
        case ops.Projection(columns=columns):
            return {"o": "proj", "cols": cols(columns)}
        case ops.Selection(predicate=predicate):
            return {"o": "sel", "p": pred(predicate)}
        case ops.Deduplication():
            return {"o": "dedup"}
        case ops.Slice(start=start, stop=stop):
            return {"o": "slice", "a": start, "b": -1 if stop is None else stop}
        case ops.Sort(terms=terms):
            return {"o": "sort", "terms": [{"e": expr(t.expression), "asc": bool(t.ascending)} for t in terms]}
        case Identity():
            return {"o": "id"}
        case ops.PartialJoin(binary=binary, fixed=fixed, fixed_is_lhs=lhs):
            return {
                "o": "pjoin",
                "fixed": tree(fixed, names),
                "p": pred(binary.predicate),
                "min": cols(binary.min_columns),
                "max": [] if binary.max_columns is None else cols(binary.max_columns),
                "hasmax": binary.max_columns is not None,
                "lhs": bool(lhs),
            }
    from .custom_ops import NAMES

    if type(o) in NAMES:
        return {"o": "cust", "f": NAMES[type(o)]}
    raise TypeError(f"cannot project operation {o!r}")


def binary_op(o: Any) -> dict:
    match o:
        case ops.Chain():
            return {"o": "chain"}
        case ops.Join(predicate=predicate, min_columns=mn, max_columns=mx):
            return {
                "o": "join",
                "p": pred(predicate),
                "common": cols(mn) if mx == mn else [],
                # a join node whose common columns were never resolved (min_columns != max_columns) is ill-formed
                "unres": mx != mn,
            }
        case IgnoreOne(ignore_lhs=il):
            return {"o": "ignore", "lhs": bool(il)}
    raise TypeError(f"cannot project binary operation {o!r}")


def bound(n) -> int:
    return -1 if n is None else int(n)


def tree(r: Any, names=None) -> dict:
    """Project a relation tree.  `names` optionally maps id(leaf) / leaf name to
    the abstract leaf id."""
    match r:
        case LeafRelation():
            return {"k": "leaf", "id": _leaf_id(r, names)}
        case Select():
            return {
                "k": "sel",
                "sort": [{"e": expr(t.expression), "asc": bool(t.ascending)} for t in r.sort.terms],
                "proj": {"some": False, "cols": []} if r.projection is None
                else {"some": True, "cols": cols(r.projection.columns)},
                "dedup": r.deduplication is not None,
                "a": r.slice.start,
                "b": -1 if r.slice.stop is None else r.slice.stop,
                "skip": tree(r.skip_to, names),
                "compound": bool(r.is_compound),
                "t": tree(r.target, names),
            }
        case Transfer(target=target, destination=destination):
            return {"k": "xfer", "dest": destination.name, "t": tree(target, names), "p": r.payload is not None}
        case Materialization(target=target, name=name):
            return {"k": "mat", "name": name, "t": tree(target, names), "p": r.payload is not None}
        case MarkerRelation(target=target):
            return {"k": "marker", "t": tree(target, names), "p": r.payload is not None}
        case UnaryOperationRelation(operation=operation, target=target):
            return {"k": "un", "op": unary_op(operation, names), "t": tree(target, names)}
        case BinaryOperationRelation(operation=operation, lhs=lhs, rhs=rhs):
            return {"k": "bin", "op": binary_op(operation), "l": tree(lhs, names), "r": tree(rhs, names)}
    raise TypeError(f"cannot project relation {r!r}")


def _leaf_id(leaf, names) -> str:
    if names is not None:
        if id(leaf) in names:
            return names[id(leaf)]
    return leaf.name


def meta(r: Any) -> dict:
    """Public static metadata of a relation."""
    return {
        "cols": cols(r.columns),
        "min": int(r.min_rows),
        "max": bound(r.max_rows),
        "eng": r.engine.name,
        "trivial": bool(r.is_trivial),
        "jid": bool(r.is_join_identity),
        "locked": bool(r.is_locked),
    }


def strip_sel_target(t: dict) -> dict:
    """Drop the redundant 't' (target) of select nodes: the spec derives it."""
    if not isinstance(t, dict):
        return t
    out = {}
    for k, v in t.items():
        if t.get("k") == "sel" and k == "t":
            continue
        if isinstance(v, dict):
            out[k] = strip_sel_target(v)
        else:
            out[k] = v
    return out


def row(r: dict) -> dict:
    return {k.qualified_name: v for k, v in r.items()}


def rows(rs) -> list[dict]:
    return [row(r) for r in rs]
