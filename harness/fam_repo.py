"""Family 'repo' — the repository's own test-suite run under the recording
plugin (harness/verif_trace.py); every relation the 82 tests build is judged by
TLC: structural well-formedness (C14) and Select-marker coherence (C17)."""
from __future__ import annotations

import json
import os
import subprocess
import tempfile
import time
from pathlib import Path

from . import tracecheck
from .core import VERIF, MachineryError, Part


def run(tier: str, seed: int) -> list[Part]:
    t0 = time.time()
    part = Part(name="repo-tests-traced", cfg="TraceTree", states=1, transitions=1, exhaustive=False)
    tmp = Path(tempfile.mkdtemp(prefix="verif-repo-trace-"))
    try:
        out = tmp / "trace.ndjson"
        env = dict(os.environ, LSST_DAF_RELATION_VERIF="1", VERIF_TRACE_OUT=str(out))
        env["PYTHONPATH"] = str(VERIF) + (os.pathsep + env["PYTHONPATH"] if env.get("PYTHONPATH") else "")
        p = subprocess.run(["/venv/bin/python", "-m", "pytest", "-q", "-p", "no:cacheprovider", "-p", "harness.verif_trace", "tests"],
                           cwd="/repo", env=env, capture_output=True, text=True, timeout=900)
        part.notes.append("pytest: " + (p.stdout.strip().splitlines()[-1] if p.stdout.strip() else "no output"))
        if not out.exists():
            raise MachineryError(f"the recording plugin wrote no trace:\n{p.stdout[-1500:]}\n{p.stderr[-1500:]}")
        events = [json.loads(l) for l in open(out)]
        stats = json.loads(open(str(out) + ".stats").read()) if os.path.exists(str(out) + ".stats") else {}
        part.counters.update({f"plugin_{k}": v for k, v in stats.items()})
        for ev in events:
            ev.pop("how", None)
        verdicts = tracecheck.validate("TraceTree.tla", events, batch=400)
        part.traces = len(events)
        part.nontrivial = sum(1 for ev in events if ev["tree"].get("k") != "leaf")
        part.samples.append(events[len(events) // 2]["tree"])
        for v in verdicts:
            for clause, ok in v["v"].items():
                if not ok:
                    part.violations.append({"properties": {"wf": ["C14"], "coh": ["C17"]}.get(clause, ["C14"]), "family": "repo",
                                            "what": f"a relation built by the repository's own tests is rejected by TLC (clause {clause})",
                                            "case": {"tree": v["event"]["tree"]}})
        # ---- the binding binds: corrupt one field of recorded events; TLC must reject each
        selftest = Part(name="repo-tests-traced:corrupt-one-field", cfg="TraceTree", states=1, transitions=1, exhaustive=False)
        corrupted = _corruptions(events)
        bad = tracecheck.validate("TraceTree.tla", [c for _, c in corrupted], batch=400)
        rejected = {v["id"] for v in bad}
        selftest.traces = len(corrupted)
        selftest.nontrivial = len(rejected)
        selftest.notes.append("corruptions applied: " + ", ".join(k for k, _ in corrupted))
        for i, (kind, _) in enumerate(corrupted):
            if i not in rejected:
                raise MachineryError(f"binding self-test: TLC accepted a corrupted recorded tree ({kind})")
        selftest.samples.append({"corruption": corrupted[0][0], "tree": corrupted[0][1]["tree"]} if corrupted else {})
    finally:
        import shutil

        shutil.rmtree(tmp, ignore_errors=True)
    part.wall_s = time.time() - t0
    return [part, selftest]


def _corruptions(events):
    """Copies of recorded events with ONE field changed so that an invariant must fail."""
    import copy

    out = []

    def find(t, pred):
        if isinstance(t, dict):
            if pred(t):
                return t
            for v in t.values():
                r = find(v, pred)
                if r is not None:
                    return r
        elif isinstance(t, list):
            for v in t:
                r = find(v, pred)
                if r is not None:
                    return r
        return None

    for ev in events:
        if len(out) >= 4:
            break
        kinds = {k for k, _ in out}
        e = copy.deepcopy(ev)
        n = find(e["tree"], lambda t: t.get("k") == "un" and t["op"].get("o") == "proj")
        if n is not None and "projection onto a missing column" not in kinds:
            n["op"]["cols"] = n["op"]["cols"] + ["no_such_column"]
            out.append(("projection onto a missing column", e))
            continue
        n = find(e["tree"], lambda t: t.get("k") == "xfer" and t["t"].get("k") == "leaf")
        if n is not None and "transfer to the engine it comes from" not in kinds:
            n["dest"] = n["t"]["eng"]
            out.append(("transfer to the engine it comes from", e))
            continue
        n = find(e["tree"], lambda t: t.get("k") == "sel" and not t["dedup"] and t["skip"].get("k") != "sel")
        if n is not None and "select marker claims a deduplication its target lacks" not in kinds and e["tree"].get("k") == "sel":
            n["dedup"] = True
            out.append(("select marker claims a deduplication its target lacks", e))
            continue
        n = find(e["tree"], lambda t: t.get("k") == "bin" and t["op"].get("o") == "join" and t["op"]["common"])
        if n is not None and "join on a column one operand lacks" not in kinds:
            n["op"]["common"] = n["op"]["common"] + ["no_such_column"]
            out.append(("join on a column one operand lacks", e))
    return out
