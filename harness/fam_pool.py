"""Family 'pool' — PoolHistory.tla replayed into the real library (property C09).

TLC generates histories interleaving factory calls on ANY pool member with
compile / execute / process / diagnose / rejected requests on ANY member
(exhaustively to depth 2-3, by simulation to depth 6-8).  After EVERY step the
replay fingerprints EVERY pool member and every leaf payload:
  repr, str, hash, columns, row bounds, equality with a twin built a second
  time from the same leaves, RowSequence rows / SQL Payload where-list and
  columns_available keys, compiled SQL text, executed rows
The first observation of a fingerprint is the oracle for all later ones.
"""
from __future__ import annotations

import json
import random
import time

from . import build, project
from .core import trim, MachineryError, Part, merge_worker_outputs, parallel_replay
from .fam_multi import engines, sql_mat_after_xfer
from .fam_sql import bag, db, load_table, nested_compound
from .procs import make_processor
from .tlc import run_tlc

L_ROWS = [{"a": 1, "b": 0}, {"a": 0, "b": 1}, {"a": 1, "b": 0}, {"a": 0, "b": 0}]
T2_ROWS = [{"a": 0, "c": 1}, {"a": 1, "c": 0}]


class World:
    def __init__(self):
        from lsst.daf.relation import LeafRelation
        from lsst.daf.relation.iteration import RowSequence
        from lsst.daf.relation.sql import Payload

        conn, tables, _ = db()
        self.conn = conn
        self.eng = engines()
        load_table("T1", L_ROWS)
        load_table("T2", T2_ROWS)
        self.l_rows = build.rows(L_ROWS)
        self.l_payload = RowSequence(self.l_rows)
        leaf_l = LeafRelation(self.eng["it1"], build.tags(("a", "b")), self.l_payload, name="L", min_rows=4, max_rows=4)
        t1, t2 = tables["T1"], tables["T2"]
        self.pay_t = Payload(t1, columns_available={build.tag(c): t1.c[c] for c in ("a", "b")})
        self.pay_t2 = Payload(t2, columns_available={build.tag(c): t2.c[c] for c in ("a", "c")})
        leaf_t = self.eng["sql"].make_leaf(build.tags(("a", "b")), self.pay_t, name="T", min_rows=4, max_rows=4)
        leaf_t2 = self.eng["sql"].make_leaf(build.tags(("a", "c")), self.pay_t2, name="T2", min_rows=0, max_rows=None)
        # fourth initial member: what Processor.process() returns for L transferred into the SQL engine
        # (its Transfer holds a payload: a temporary table that lives as long as this world)
        self.proc0 = make_processor(conn, self.eng["sql"])
        processed_l = self.proc0.process(leaf_l.transferred_to(self.eng["sql"]))
        self.leaves = [leaf_l, leaf_t, leaf_t2, processed_l]

    def close(self):
        self.proc0.cleanup()

    @staticmethod
    def marker_state(pool):
        """Content fingerprint of every payload held by a marker of any pool member."""
        from lsst.daf.relation import BinaryOperationRelation, MarkerRelation, UnaryOperationRelation
        from lsst.daf.relation.iteration import RowSequence
        from lsst.daf.relation.sql import Payload

        seen = {}

        def walk(x):
            match x:
                case UnaryOperationRelation(target=target):
                    walk(target)
                case BinaryOperationRelation(lhs=lhs, rhs=rhs):
                    walk(lhs)
                    walk(rhs)
                case MarkerRelation(target=target):
                    p = x.payload
                    if p is not None and id(x) not in seen:
                        if isinstance(p, Payload):
                            seen[id(x)] = ("sql", str(p.from_clause), len(p.where), tuple(sorted(k.qualified_name for k in p.columns_available)))
                        elif isinstance(p, RowSequence):
                            seen[id(x)] = ("rows", tuple(tuple(sorted((k.qualified_name, v) for k, v in r.items())) for r in p.rows))
                        else:
                            seen[id(x)] = ("other", type(p).__name__)
                    walk(target)

        for r in pool:
            walk(r)
        return seen

    def leaf_state(self):
        return (
            tuple(tuple(sorted((k.qualified_name, v) for k, v in r.items())) for r in self.l_payload.rows),
            tuple(sorted(k.qualified_name for k in self.pay_t.columns_available)), len(self.pay_t.where),
            tuple(sorted(k.qualified_name for k in self.pay_t2.columns_available)), len(self.pay_t2.where),
        )

    def build_one(self, a, pool):
        k = a["a"]
        i = a["i"] - 1
        if k == "un":
            return build.unary_op(a["op"]).apply(pool[i])
        if k == "chain":
            return pool[i].chain(pool[a["j"] - 1])
        if k == "join":
            return pool[i].join(pool[a["j"] - 1])
        if k == "mat":
            return pool[i].materialized(a["name"])
        if k == "xfer":
            return pool[i].transferred_to(self.eng[a["dest"]])
        raise MachineryError(f"unknown build action {a}")


def fp(rel):
    try:
        h = hash(rel)
    except TypeError as exc:
        h = f"unhashable:{exc}"
    return (repr(rel), str(rel), tuple(sorted(t.qualified_name for t in rel.columns)), rel.min_rows, rel.max_rows, h)


def sql_text(w, rel):
    ex = w.eng["sql"].to_executable(rel)
    return str(ex.compile(compile_kwargs={"literal_binds": True}))


def run_rel(w, rel):
    from lsst.daf.relation import sql

    if isinstance(rel.engine, sql.Engine):
        names = [t.qualified_name for t in rel.columns]
        return [{n: row[n] for n in names} for row in w.conn.execute(w.eng["sql"].to_executable(rel)).mappings()]
    return project.rows(rel.engine.execute(rel))


BUILDERS = ("un", "chain", "join", "mat", "xfer")


def replay_state(st: dict, out: dict) -> None:
    w = World()
    try:
        _replay_state(st, out, w)
    finally:
        w.close()


def _replay_state(st: dict, out: dict, w) -> None:
    from lsst.daf.relation import Diagnostics

    viol = out["violations"]
    cnt = out["counters"]
    case = {"acts": st["acts"]}

    def V(props, what, **kw):
        viol.append({"properties": props, "family": "pool", "what": what, "case": case, **kw})

    pool = list(w.leaves)
    prints = [fp(r) for r in pool]
    leaf0 = w.leaf_state()
    markers0 = w.marker_state(pool)
    first_sql: dict = {}
    first_rows: dict = {}
    model_rows = st["rows"]
    for step, a in enumerate(st["acts"]):
        try:
            if a["a"] in BUILDERS:
                r = w.build_one(a, pool)
                pool.append(r)
                prints.append(fp(r))
                if isinstance(prints[-1][5], str):
                    V(["C09"], f"a relation built by the factories is not hashable ({prints[-1][5]})", relation=str(r), step=step)
            else:
                i = a["i"] - 1
                rel = pool[i]
                if a["a"] == "compile":
                    txt = sql_text(w, rel)
                    if i in first_sql and first_sql[i] != txt:
                        V(["C09"], "compiling the same relation again gave different SQL", first=first_sql[i], now=txt, step=step)
                    first_sql.setdefault(i, txt)
                elif a["a"] == "exec":
                    rows = run_rel(w, rel)
                    if i in first_rows and first_rows[i] != rows:
                        V(["C09"], "executing the same relation again gave different rows", first=first_rows[i], now=rows, step=step)
                    first_rows.setdefault(i, rows)
                    exp = [x if isinstance(x, dict) else {} for x in model_rows[i]]
                    if st["det"][i] and bag(rows) != bag(exp):
                        V(["C09", "C01", "C02"], "executed rows differ from the relation's reference content (as a multiset)", observed=rows, expected=exp, step=step)
                elif a["a"] == "process":
                    proc = make_processor(w.conn, w.eng["sql"])
                    try:
                        processed = proc.process(rel)
                        from lsst.daf.relation import sql as _sql

                        rows = project.rows(proc.evaluate(processed)) if isinstance(processed.engine, _sql.Engine) else project.rows(processed.engine.execute(processed))
                        exp = [x if isinstance(x, dict) else {} for x in model_rows[i]]
                        if st["det"][i] and bag(rows) != bag(exp):
                            V(["C09", "C07"], "rows after processing differ from the relation's reference content", observed=rows, expected=exp, step=step)
                    except Exception as exc:  # noqa: BLE001
                        if type(exc).__name__ == "EngineError" and "Cannot persist materialization" in str(exc) and sql_mat_after_xfer(project.tree(rel)):
                            out["known"]["F8"] = out["known"].get("F8", 0) + 1
                        elif 'near "(": syntax error' in str(exc) and nested_compound(project.tree(rel)):
                            cnt["sqlite_nested_compound_skipped"] = cnt.get("sqlite_nested_compound_skipped", 0) + 1
                        elif "Joins are not supported by the iteration engine" in str(exc):
                            cnt["iteration_join_not_executable"] = cnt.get("iteration_join_not_executable", 0) + 1
                        else:
                            V(["C09", "C07"], f"process() raised {type(exc).__name__}: {str(exc)[:200]}", step=step)
                    finally:
                        proc.cleanup()
                elif a["a"] == "diag":
                    Diagnostics.run(rel)
                    if st["single"][i]:
                        Diagnostics.run(rel, lambda r: len(run_rel(w, r)) > 0)
                elif a["a"] == "reject":
                    c = a["call"]
                    try:
                        build.unary_op(c["op"]).apply(rel)
                        V(["C20", "C09"], "an ill-formed request returned a relation", request=c, step=step)
                    except Exception:  # noqa: BLE001
                        pass
        except Exception as exc:  # noqa: BLE001
            if 'near "(": syntax error' in str(exc) and nested_compound(project.tree(pool[a["i"] - 1])):
                cnt["sqlite_nested_compound_skipped"] = cnt.get("sqlite_nested_compound_skipped", 0) + 1
                return
            V(["C09", "C08"], f"action {a['a']} raised {type(exc).__name__}: {str(exc)[:300]}", step=step, action=a)
            return
        # ---- persistence: every earlier member and every leaf payload unchanged
        for k, r in enumerate(pool):
            now = fp(r)
            if now != prints[k]:
                V(["C09"], "a previously obtained relation changed (repr/str/columns/bounds/hash)", member=k + 1, before=prints[k][:2], after=now[:2], step=step, action=a)
                prints[k] = now
        if w.leaf_state() != leaf0:
            V(["C09"], "the content of a leaf payload changed", step=step, action=a, before=str(leaf0)[:300], after=str(w.leaf_state())[:300])
            leaf0 = w.leaf_state()
        markers_now = w.marker_state(pool)
        for mid, was in markers0.items():
            if mid in markers_now and markers_now[mid] != was:
                V(["C09", "C10"], "the content of a payload cached on a transfer / materialization changed (compiling or evaluating a relation "
                                  "built on it must not edit it)", step=step, action=a, before=str(was)[:300], after=str(markers_now[mid])[:300])
        markers0 = {**markers0, **markers_now}
        for i, txt in list(first_sql.items()):
            try:
                now = sql_text(w, pool[i])
                if now != txt:
                    V(["C09"], "the SQL compiled for an earlier relation changed after later calls", member=i + 1, first=txt, now=now, step=step, action=a)
                    first_sql[i] = now
            except Exception as exc:  # noqa: BLE001
                V(["C09"], f"recompiling an earlier relation raised {type(exc).__name__}: {exc}", member=i + 1, step=step)
        for i, rows in list(first_rows.items()):
            try:
                now = run_rel(w, pool[i])
                if now != rows:
                    V(["C09"], "the rows executed for an earlier relation changed after later calls", member=i + 1, first=rows, now=now, step=step, action=a)
                    first_rows[i] = now
            except Exception as exc:  # noqa: BLE001
                V(["C09"], f"re-executing an earlier relation raised {type(exc).__name__}: {exc}", member=i + 1, step=step)
    # ---- twin: the same build sequence again from the same leaves
    twin = list(w.leaves)
    try:
        for a in st["acts"]:
            if a["a"] in BUILDERS:
                twin.append(w.build_one(a, twin))
        for k, (r, t) in enumerate(zip(pool, twin)):
            if not (r == t):
                V(["C09"], "building the same operation sequence twice gave unequal relations", member=k + 1, first=str(r), second=str(t))
            else:
                try:
                    if hash(r) != hash(t):
                        V(["C09"], "equal relations built twice have different hashes", member=k + 1)
                except TypeError:
                    pass
    except Exception as exc:  # noqa: BLE001
        V(["C09"], f"rebuilding the same sequence raised {type(exc).__name__}: {exc}")
    cnt["steps"] = cnt.get("steps", 0) + len(st["acts"])


def worker(lines, ctx):
    out = {"n": 0, "nontrivial": 0, "violations": [], "counters": {}, "samples": [], "events": [], "n_drift": 0, "drift": [], "known": {}}
    for ln in lines:
        st = json.loads(ln)
        out["n"] += 1
        if any(a["a"] not in BUILDERS for a in st["acts"]) and any(a["a"] in BUILDERS for a in st["acts"]):
            out["nontrivial"] += 1
        replay_state(st, out)
        if len(out["violations"]) > 60:
            out["violations"] = trim(out["violations"])
        if len(out["samples"]) < 1 and len(st["acts"]) >= 2:
            out["samples"].append({"acts": st["acts"]})
    return out


def run(tier: str, seed: int) -> list[Part]:
    parts = []
    plans = [("PoolQuick.cfg", None, None)] if tier == "quick" else [("PoolQuick.cfg", None, None), ("PoolEx3.cfg", None, None)]
    plans.append(("PoolSim6.cfg", "num=40" if tier == "quick" else "num=400", 7) if True else None)
    if tier == "thorough":
        plans.append(("PoolSim8.cfg", "num=300", 9))
    for cfg, sim, depth in plans:
        t0 = time.time()
        extra = ["-depth", str(depth)] if sim else None
        res = run_tlc("MC_Pool.tla", cfg, simulate=sim, seed=seed if sim else None, extra_args=extra, heap="3g", timeout=7200)
        if res.violated:
            raise MachineryError(f"model-level violation of {res.violated} in {cfg}:\n{res.error_text}")
        part = Part(name=f"poolhistory:{cfg}{':simulate' if sim else ''}", cfg=cfg, states=max(res.distinct, 1), transitions=max(res.generated, 1),
                    exhaustive=not sim)
        lines = res.raw_lines()
        if sim:
            uniq = sorted(set(lines))
            rng = random.Random(seed)
            rng.shuffle(uniq)
            lines = uniq[: 3000 if tier == "quick" else 40000]
            part.notes.append(f"simulation {sim} depth {depth} seed {seed}: {len(uniq)} distinct terminal histories, {len(lines)} replayed")
        outs = parallel_replay(worker, lines, chunk=60)
        merge_worker_outputs(part, outs)
        part.wall_s = time.time() - t0
        parts.append(part)
    return parts
