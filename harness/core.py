"""Shared plumbing of the checks: results, evidence files, replay files,
known findings, parallel replay of TLC dumps."""
from __future__ import annotations

import hashlib
import json
import multiprocessing as mp
import os
import sys
import time
import traceback
from collections import Counter
from dataclasses import dataclass, field
from pathlib import Path
from typing import Any, Callable, Iterable

VERIF = Path(__file__).resolve().parent.parent
EVIDENCE = VERIF / "evidence"
REPLAYS = VERIF / "replays"
KNOWN = VERIF / "known_findings.json"

NPROC = int(os.environ.get("VERIF_NPROC", "16"))


class MachineryError(RuntimeError):
    """Something in the verification machinery (not the code under test) failed."""


@dataclass
class Part:
    """Result of one part (one TLC run + binding) of a check."""

    name: str
    states: int = 0
    transitions: int = 0
    replayed: int = 0  # behaviours/states replayed into the implementation
    traces: int = 0  # recorded events validated by TLC (binding B)
    nontrivial: int = 0
    violations: list = field(default_factory=list)  # dicts with 'property'
    drift: list = field(default_factory=list)
    n_drift: int = 0
    known: Counter = field(default_factory=Counter)  # finding id -> count
    counters: Counter = field(default_factory=Counter)
    samples: list = field(default_factory=list)
    exhaustive: bool = True
    wall_s: float = 0.0
    notes: list = field(default_factory=list)
    cfg: str = ""


def merge_worker_outputs(part: Part, outs: Iterable[dict], max_keep: int = 200) -> None:
    for o in outs:
        part.replayed += o.get("n", 0)
        part.nontrivial += o.get("nontrivial", 0)
        part.n_drift += o.get("n_drift", 0)
        part.counters.update(o.get("counters", {}))
        part.known.update(o.get("known", {}))
        for v in o.get("violations", []):
            part.violations.append(v)
        if len(part.violations) > 4 * max_keep:
            part.violations = trim(part.violations, 12)
        for d in o.get("drift", []):
            if len(part.drift) < 20:
                part.drift.append(d)
        for s in o.get("samples", []):
            if len(part.samples) < 6:
                part.samples.append(s)
        if "error" in o:
            raise MachineryError(o["error"])
    part.violations = trim(part.violations, 12)


def trim(violations: list, per_class: int = 8) -> list:
    """Keep at most `per_class` violation records per (properties, kind of failure), so that a frequent
    failure of one property cannot crowd out a rare failure of another."""
    seen: Counter = Counter()
    out = []
    for v in violations:
        key = (tuple(v.get("properties", (v.get("property"),))), str(v.get("what"))[:60])
        seen[key] += 1
        if seen[key] <= per_class:
            out.append(v)
    return out


def _run_chunk(args):
    fn, lines, ctx = args
    try:
        return fn(lines, ctx)
    except Exception:  # noqa: BLE001 - reported as machinery failure
        return {"error": "worker crashed:\n" + traceback.format_exc()}


def parallel_replay(
    worker: Callable[[list[str], dict], dict],
    lines: Iterable[str],
    ctx: dict | None = None,
    chunk: int = 400,
    nproc: int | None = None,
) -> list[dict]:
    """Distribute dump lines over worker processes; return worker outputs."""
    nproc = nproc or NPROC
    ctx = ctx or {}

    def chunks():
        buf: list[str] = []
        for ln in lines:
            buf.append(ln)
            if len(buf) >= chunk:
                yield (worker, buf, ctx)
                buf = []
        if buf:
            yield (worker, buf, ctx)

    if nproc <= 1:
        return [_run_chunk(c) for c in chunks()]
    mpctx = mp.get_context("fork")
    with mpctx.Pool(nproc) as pool:
        return list(pool.imap_unordered(_run_chunk, chunks()))


# --------------------------------------------------------------------------
# known findings
# --------------------------------------------------------------------------
def load_known() -> dict:
    if not KNOWN.exists():
        return {"findings": []}
    return json.loads(KNOWN.read_text())


def open_findings(prop: str) -> list[dict]:
    return [f for f in load_known()["findings"] if prop in f["properties"] and f["status"] == "open"]


# --------------------------------------------------------------------------
# replay files and verdict
# --------------------------------------------------------------------------
def write_replay(prop: str, violation: dict) -> Path:
    d = REPLAYS / prop
    d.mkdir(parents=True, exist_ok=True)
    blob = json.dumps(violation, sort_keys=True, default=str)
    h = hashlib.sha256(blob.encode()).hexdigest()[:16]
    p = d / f"{h}.json"
    p.write_text(json.dumps(violation, indent=1, sort_keys=True, default=str))
    return p


def write_evidence(
    prop: str,
    tier: str,
    seed: int,
    parts: list[Part],
    wall_s: float,
    n_violations: int,
    assumptions: list[str],
    known_lines: list[str],
    level: str = "model_checking",
    extra: dict | None = None,
) -> None:
    EVIDENCE.mkdir(exist_ok=True)
    samples: list = []
    for p in parts:
        for s in p.samples[:3]:
            samples.append({"part": p.name, "case": s})
    if not samples:
        samples = [{"note": "no sample collected"}]
    cov: dict[str, Any] = {
        "states": max(1, sum(p.states for p in parts)),
        "transitions": max(1, sum(p.transitions for p in parts)),
        "traces_validated_against_impl": sum(p.replayed + p.traces for p in parts),
        "samples": samples[:12],
        "evaluations": max(1, sum(p.replayed + p.traces for p in parts)),
        "distinct_nontrivial": sum(p.nontrivial for p in parts),
        "rule": "TLC enumerates every reachable state of the bounded configuration (distinct by construction: "
        "TLC's fingerprint set); a state counts as non-trivial when the part's stated non-triviality "
        "predicate holds for it (see parts[].counters)",
        "exhaustive": all(p.exhaustive for p in parts),
        "drift": sum(p.n_drift for p in parts),
        "drift_samples": [d for p in parts for d in p.drift][:5],
        "known_findings_reported": known_lines,
        "parts": [
            {
                "name": p.name,
                "cfg": p.cfg,
                "tlc_states_generated": p.transitions,
                "tlc_distinct_states": p.states,
                "replayed_into_impl": p.replayed,
                "events_validated_by_tlc": p.traces,
                "nontrivial": p.nontrivial,
                "drift": p.n_drift,
                "known": dict(p.known),
                "counters": dict(p.counters),
                "exhaustive": p.exhaustive,
                "wall_s": round(p.wall_s, 2),
                "notes": p.notes,
            }
            for p in parts
        ],
    }
    obligations = sum(p.counters.get("obligations", 0) for p in parts)
    if obligations:
        cov["obligations"] = obligations
        cov["discharged"] = sum(p.counters.get("discharged", 0) for p in parts)
        cov["checker_cmd"] = "tlapm --toolbox 0 0 spec/SliceThenProof.tla"
        cov["trusted_base"] = ["tlapm 1.6.0-pre with its SMT backend", "TLC for the tie between the proved definitions and RA_Ops!SliceThen"]
    if extra:
        cov.update(extra)
    ev = {
        "property_id": prop,
        "tier": tier,
        "seed": seed,
        "level": level,
        "coverage": cov,
        "assumptions": assumptions,
        "wall_s": round(wall_s, 2),
        "violations": n_violations,
    }
    (EVIDENCE / f"{prop}.json").write_text(json.dumps(ev, indent=1, default=str))


def applies(v: dict, prop: str) -> bool:
    """A violation record names one property ('property') or several ('properties')."""
    return v.get("property") == prop or prop in v.get("properties", ())


def finish(
    prop: str,
    tier: str,
    seed: int,
    parts: list[Part],
    t0: float,
    assumptions: list[str],
    known_lines: list[str] | None = None,
    extra: dict | None = None,
) -> int:
    """Print verdict lines, write evidence, return exit code."""
    known_lines = known_lines or []
    viols = [v for p in parts for v in p.violations if applies(v, prop)]
    for line in known_lines:
        print(line)
    n_drift = sum(p.n_drift for p in parts)
    if n_drift:
        print(f"DRIFT property={prop} count={n_drift} (structural difference between model and code; not a violation)")
    paths = []
    for v in viols[:20]:
        paths.append(write_replay(prop, v))
    write_evidence(prop, tier, seed, parts, time.time() - t0, len(viols), assumptions, known_lines, extra=extra)
    for p in parts:
        print(
            f"[{prop}] part={p.name} cfg={p.cfg} tlc_states={p.states} replayed={p.replayed} "
            f"tlc_validated_events={p.traces} nontrivial={p.nontrivial} drift={p.n_drift} "
            f"violations={sum(1 for v in p.violations if applies(v, prop))} wall={p.wall_s:.1f}s"
        )
    if viols:
        for path in paths[:10]:
            print(f"VIOLATION property={prop} replay={path}")
        return 1
    print(f"OK property={prop} tier={tier}")
    return 0


def seed_from_env() -> int:
    try:
        return int(os.environ.get("VERIF_SEED", "0"))
    except ValueError:
        return 0
