"""User-defined unary operations of the extension API (spec: RA_Ops!Cust).

Subclasses of `RowFilter` / `Reordering` whose flags are TRUTHFUL, and an
iteration engine that evaluates them through the documented extension point
`apply_custom_unary_operation`.  They take part in the library's rewrite
rules only through their flags and `columns_required`, like any operation a
user of the library may define.
"""
from __future__ import annotations

import dataclasses

from lsst.daf.relation import Reordering, RowFilter, iteration

from . import build


@dataclasses.dataclass(frozen=True)
class Reverse(Reordering):
    """Rows in reverse order."""

    @property
    def is_order_dependent(self) -> bool:
        return True

    def __str__(self) -> str:
        return "reverse"


@dataclasses.dataclass(frozen=True)
class SortSum(Reordering):
    """Stable sort by a + b (not order-dependent, like Sort)."""

    @property
    def columns_required(self):
        return build.tags(["a", "b"])

    def __str__(self) -> str:
        return "sortsum"


@dataclasses.dataclass(frozen=True)
class APos(RowFilter):
    """Rows with a > 0."""

    @property
    def columns_required(self):
        return build.tags(["a"])

    @property
    def is_order_dependent(self) -> bool:
        return False

    @property
    def is_empty_invariant(self) -> bool:
        return False

    def __str__(self) -> str:
        return "apos"


@dataclasses.dataclass(frozen=True)
class EvenCount(RowFilter):
    """All rows when their number is even, none otherwise."""

    @property
    def is_order_dependent(self) -> bool:
        return False

    @property
    def is_count_dependent(self) -> bool:
        return True

    @property
    def is_empty_invariant(self) -> bool:
        return False

    def __str__(self) -> str:
        return "evencount"


@dataclasses.dataclass(frozen=True)
class EveryOther(RowFilter):
    """Rows 1, 3, 5, ... (never empties a non-empty relation)."""

    @property
    def is_order_dependent(self) -> bool:
        return True

    @property
    def is_count_dependent(self) -> bool:
        return True

    @property
    def is_empty_invariant(self) -> bool:
        return True

    def __str__(self) -> str:
        return "everyother"


CLASSES = {"reverse": Reverse, "sortsum": SortSum, "apos": APos, "evencount": EvenCount, "everyother": EveryOther}
NAMES = {v: k for k, v in CLASSES.items()}


class CustomIterationEngine(iteration.Engine):
    """Iteration engine that supports the operations above (public extension point)."""

    def apply_custom_unary_operation(self, operation, target):
        rows = list(self.execute(target))
        a, b = build.tag("a"), build.tag("b")
        match operation:
            case Reverse():
                rows = rows[::-1]
            case SortSum():
                rows.sort(key=lambda r: r[a] + r[b])
            case APos():
                rows = [r for r in rows if r[a] > 0]
            case EvenCount():
                rows = rows if len(rows) % 2 == 0 else []
            case EveryOther():
                rows = rows[::2]
            case _:
                return super().apply_custom_unary_operation(operation, target)
        return iteration.RowSequence(rows)
