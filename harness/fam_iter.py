"""Family 'iter' — IterProgram.tla replayed into the real iteration engine.

Decides (per emitted TLC state = leaf contents + call history + oracle):
  C01  executed rows == TLC's reference rows (values, multiplicity, order),
       with RowSequence leaves and with lazy counting leaves
  C05  no exception from merging; rows of the merged tree (same comparison)
  C06  keys of every executed row == relation.columns, executed count within
       [min_rows, max_rows] for EVERY node of the real tree; flags agree
  C14  documented no-op calls return the very same object; real trees judged
       WellFormed by TLC (TraceTree)
  C16  Diagnostics verdicts without / with a really-executing executor
  C18  payload iteration counts (lazy set: none at execute(), <= one per leaf
       occurrence per iteration; eager operations: never more than the model)
  C20  every ill-formed request listed by TLC for the state is rejected with
       the documented class and leaves the relation unchanged
Structural differences between the real tree and the model's tree are drift.
"""
from __future__ import annotations

import json
import time

from . import build, project, tracecheck
from .core import trim, MachineryError, Part, merge_worker_outputs, parallel_replay
from .tlc import run_tlc

_st: dict = {}

EXC = {
    "ColumnError": "ColumnError",
    "EngineError": "EngineError",
    "ValueError": "ValueError",
    "TypeError": "TypeError",
    "OrderLoss": "RelationalAlgebraError",
}


def engines():
    if "engines" not in _st:
        # iteration engines that also evaluate the user-defined operations of RA_Ops!Cust
        # (public extension point apply_custom_unary_operation; otherwise plain iteration.Engine)
        from .custom_ops import CustomIterationEngine

        _st["engines"] = {"it1": CustomIterationEngine(name="it1"), "it2": CustomIterationEngine(name="it2")}
    return _st["engines"]


def counting_class():
    if "counting" not in _st:
        from lsst.daf.relation.iteration import RowIterable

        class CountingRows(RowIterable):
            """A lazy (non-materialised) payload that counts iterations started."""

            def __init__(self, rows):
                self._rows = rows
                self.starts = 0
                self.pulled = 0

            def __iter__(self):
                self.starts += 1
                return self._gen()

            def _gen(self):
                for r in self._rows:
                    self.pulled += 1
                    yield r

        _st["counting"] = CountingRows
    return _st["counting"]


def counting_mat_class():
    if "countingm" not in _st:
        from lsst.daf.relation.iteration import MaterializedRowIterable

        class CountingMaterialized(MaterializedRowIterable):
            """A MATERIALIZED payload that is not a RowSequence (think: rows held in some other container)
            and counts the iterations started: materialized() returns it as it is, slicing it is lazy."""

            def __init__(self, rows):
                self._rows = rows
                self.starts = 0

            def __iter__(self):
                self.starts += 1
                return iter(list(self._rows))

            def __len__(self):
                return len(self._rows)

        _st["countingm"] = CountingMaterialized
    return _st["countingm"]


class World:
    """Real objects for one TLC state."""

    def __init__(self, st: dict, mode: str):
        from lsst.daf.relation import LeafRelation
        from lsst.daf.relation.iteration import RowSequence

        self.st = st
        self.mode = mode
        eng = engines()
        cols = build.tags(st["cols"])
        self.payloads = {}

        def mk(name, rows, engine, mn, mx, columns=cols):
            real_rows = build.rows(rows)
            payload = (RowSequence(real_rows) if mode == "seq" else counting_mat_class()(real_rows) if mode == "cmat"
                       else counting_class()(real_rows))
            self.payloads[name] = payload
            return LeafRelation(engine, columns, payload, name=name, min_rows=mn, max_rows=None if mx == -1 else mx)

        self.leaves = {
            "L1": mk("L1", st["l1"], eng["it1"], st["lmin"], st["lmax"]),
            "L2": mk("L2", st["l2"], eng["it1"], len(st["l2"]), len(st["l2"])),
        }
        zcols = frozenset(cols | {build.tag("z")})
        self.leaves["L3"] = mk("L3", [], eng["it1"], 1, 1, zcols)
        self.leaves["L4"] = mk("L4", [], eng["it2"], 1, 1)

    def call(self, c: dict, rel):
        f = c["f"]
        if f == "un":
            o = c["op"]
            k = o["o"]
            if k == "calc":
                return rel.with_calculated_column(build.tag(o["tag"]), build.expr(o["e"]))
            if k == "proj":
                return rel.with_only_columns(build.tags(o["cols"], reverse=True))
            if k == "sel":
                return rel.with_rows_satisfying(build.pred(o["p"]))
            if k == "dedup":
                return rel.without_duplicates()
            if k == "sort":
                return rel.sorted(build.sort_terms(o["terms"]))
            if k == "slice":
                return rel[o["a"] : (None if o["b"] == -1 else o["b"])]
            if k == "cust":
                return build.unary_op(o).apply(rel)
            raise MachineryError(f"unknown op {o}")
        if f == "getitem":
            return rel[c["a"] : (None if c["b"] == -1 else c["b"]) : c["step"]]
        if f == "chain":
            return rel.chain(self.leaves[c["rhs"]])
        if f == "chainself":
            return rel.chain(rel)
        if f == "chainbase":
            return self.leaves["L1"].chain(rel) if c["left"] else rel.chain(self.leaves["L1"])
        if f == "mat":
            return rel.materialized(c["name"])
        if f == "xfer":
            return rel.transferred_to(engines()[c["dest"]])
        raise MachineryError(f"unknown call {c}")

    def build(self):
        rel = self.leaves["L1"]
        noop_breaks = []
        for i, c in enumerate(self.st["hist"]):
            before = rel
            rel = self.call(c, rel)
            if is_noop_call(c, before) and rel is not before:
                noop_breaks.append(i)
        return rel, noop_breaks


def is_noop_call(c: dict, rel) -> bool:
    """Documented no-op forms (judged on the real relation's public columns/engine)."""
    f = c["f"]
    if f == "xfer":
        return rel.engine.name == c["dest"]
    if f != "un":
        return False
    o = c["op"]
    k = o["o"]
    if k == "proj":
        return set(o["cols"]) == {t.qualified_name for t in rel.columns}
    if k == "sort":
        return not o["terms"]
    if k == "slice":
        return o["a"] == 0 and o["b"] == -1
    if k == "sel":
        return o["p"] == {"p": "lit", "v": True}
    return False


def canon_tree(t, keep_p: bool = False):
    """Comparable form of a model tree / projected real tree.  keep_p: keep the
    payload flags of transfers / materializations (trees returned by process())."""
    if isinstance(t, dict):
        k = t.get("k")
        if k == "leaf":
            return {"k": "leaf", "id": t["id"]}
        out = {}
        for key, v in t.items():
            if key == "p" and k in ("xfer", "mat", "marker"):
                if keep_p:
                    out[key] = bool(v)
                continue
            if key == "compound" and k == "sel":
                continue
            if key == "unres" and not v:
                continue          # a resolved join (the normal case); the model has no such field
            if key in ("cols", "common") and isinstance(v, list):
                out[key] = sorted(v)
            else:
                out[key] = canon_tree(v, keep_p)
        return out
    if isinstance(t, list):
        return [canon_tree(v, keep_p) for v in t]
    return t


def full_tree(r):
    """Projected real tree with leaf metadata (what TLC needs to judge it).
    Leaves are identified by name; distinct leaf objects sharing a name get
    `name@engine`."""
    objs = {}

    def collect(x):
        from lsst.daf.relation import BinaryOperationRelation, LeafRelation, MarkerRelation, UnaryOperationRelation
        from lsst.daf.relation import _operations as _ops

        match x:
            case LeafRelation():
                objs[id(x)] = x
            case UnaryOperationRelation(operation=operation, target=target):
                collect(target)
                if isinstance(operation, _ops.PartialJoin):
                    collect(operation.fixed)
            case BinaryOperationRelation(lhs=lhs, rhs=rhs):
                collect(lhs)
                collect(rhs)
            case MarkerRelation(target=target):
                collect(target)
                if hasattr(x, "skip_to"):
                    collect(x.skip_to)

    collect(r)
    by_name: dict = {}
    for o in objs.values():
        by_name.setdefault(o.name, []).append(o)
    names = {}
    for nm, group in by_name.items():
        for o in group:
            # several leaf objects of one engine sharing a name denote the same table (harness aliases);
            # only same-named leaves of DIFFERENT engines need telling apart
            names[id(o)] = nm if len({g.engine.name for g in group}) == 1 else f"{nm}@{o.engine.name}"
    leaves = {names[i]: o for i, o in objs.items()}
    t = project.tree(r, names)

    def enrich(x):
        if isinstance(x, dict):
            if x.get("k") == "leaf":
                lf = leaves[x["id"]]
                return {"k": "leaf", "id": x["id"], "eng": lf.engine.name, "cols": project.cols(lf.columns),
                        "min": lf.min_rows, "max": project.bound(lf.max_rows)}
            return {k: enrich(v) for k, v in x.items() if not (k == "p" and x.get("k") in ("xfer", "mat"))}
        if isinstance(x, list):
            return [enrich(v) for v in x]
        return x

    return enrich(t)


def subrelations(r):
    from lsst.daf.relation import BinaryOperationRelation, MarkerRelation, UnaryOperationRelation

    seen = []

    def walk(x):
        seen.append(x)
        match x:
            case UnaryOperationRelation(target=target):
                walk(target)
            case BinaryOperationRelation(lhs=lhs, rhs=rhs):
                walk(lhs)
                walk(rhs)
            case MarkerRelation(target=target):
                walk(target)

    walk(r)
    return seen


def fingerprint(r) -> tuple:
    try:
        h = hash(r)
    except TypeError as exc:
        h = f"unhashable: {exc}"
    return (repr(r), str(r), tuple(sorted(t.qualified_name for t in r.columns)), r.min_rows, r.max_rows, h)


def brief(st: dict) -> dict:
    return {k: st[k] for k in ("schema", "cols", "l1", "l2", "bnd", "lmin", "lmax", "hist")}


def replay_state(st: dict, out: dict, want_event: bool) -> None:
    from lsst.daf.relation import Diagnostics

    viol = out["violations"]
    case = brief(st)
    exp_rows = [r if isinstance(r, dict) else {} for r in st["rows"]]

    def V(props, what, **kw):
        viol.append({"properties": props, "family": "iter", "what": what, "case": case, **kw})

    # ---------------- build + execute with RowSequence leaves
    try:
        w = World(st, "seq")
        rel, noop_breaks = w.build()
    except Exception as exc:  # noqa: BLE001
        V(["C01", "C05", "C08"], f"a call sequence accepted by the specification raised {type(exc).__name__}: {exc}")
        return
    if noop_breaks:
        V(["C14"], "a documented no-op call did not return the relation itself", calls=noop_breaks)
    try:
        hash(rel)
    except TypeError as exc:
        V(["C09"], f"a relation built by the factories is not hashable: {exc}", relation=str(rel))
    try:
        got = project.rows(rel.engine.execute(rel))
    except Exception as exc:  # noqa: BLE001
        V(["C01", "C08"], f"execute() raised {type(exc).__name__}: {exc}")
        return
    if got != exp_rows:
        V(["C01", "C05"], "executed rows differ from direct evaluation of the applied operation sequence",
          observed=got, expected=exp_rows, leaves="RowSequence")
    # evaluation must leave the leaves' payloads alone (another tree over the same leaf is evaluated next)
    for lname, key in (("L1", "l1"), ("L2", "l2")):
        now = [dict(r) for r in w.payloads[lname].rows]
        if now != build.rows(st[key]):
            V(["C01", "C09"], f"execute() modified the payload rows of leaf {lname} (a later evaluation over the same leaf sees different rows)",
              observed=project.rows(now) if all(isinstance(r, dict) for r in now) else str(now)[:300], expected=st[key])
    # ---------------- static metadata of every node vs its real execution
    try:
        for sub in subrelations(rel):
            rows = list(sub.engine.execute(sub))
            cols = set(sub.columns)
            if any(set(r.keys()) != cols for r in rows):
                V(["C06"], "an executed row's keys differ from relation.columns", node=str(sub))
            if len(rows) < sub.min_rows or (sub.max_rows is not None and len(rows) > sub.max_rows):
                V(["C06"], f"executed row count {len(rows)} outside [min_rows={sub.min_rows}, max_rows={sub.max_rows}]", node=str(sub))
            if sub.is_join_identity and rows != [{}]:
                V(["C06"], "is_join_identity is set but the content is not exactly one empty row", node=str(sub))
            if sub.is_trivial and not sub.is_join_identity and rows:
                V(["C06"], "is_trivial (max_rows == 0) but the relation has rows", node=str(sub))
    except Exception as exc:  # noqa: BLE001
        V(["C06", "C08"], f"executing a sub-relation raised {type(exc).__name__}: {exc}")
    m = project.meta(rel)
    mm = st["meta"]
    if sorted(mm["cols"]) != m["cols"]:
        V(["C06"], "relation.columns differs from the columns of the applied operation sequence",
          observed=m["cols"], expected=sorted(mm["cols"]))
    elif (m["min"], m["max"], m["trivial"], m["jid"]) != (mm["min"], mm["max"], mm["trivial"], mm["jid"]):
        out["n_drift"] += 1
        out["drift"].append({"what": "row bounds / flags differ from the model (both truthful)", "case": case, "real": m, "model": mm})
    if m["eng"] != mm["eng"]:
        V(["C14"], "result lives in an unexpected engine", observed=m["eng"], expected=mm["eng"])
    # ---------------- structure (drift only)
    real_tree = project.tree(rel)
    if canon_tree(real_tree) != canon_tree(st["tree"]):
        out["n_drift"] += 1
        if len(out["drift"]) < 3:
            out["drift"].append({"what": "tree shape differs from the model", "case": case,
                                 "real": canon_tree(real_tree), "model": canon_tree(st["tree"])})
    # ---------------- diagnostics
    try:
        d0 = Diagnostics.run(rel)
        d1 = Diagnostics.run(rel, lambda r: any(True for _ in r.engine.execute(r)))
        empty = not exp_rows
        if d0.is_doomed and not empty:
            V(["C16"], "Diagnostics (no executor) dooms a relation that has rows", messages=d0.messages)
        if d1.is_doomed != empty:
            V(["C16"], f"Diagnostics with a truthful executor says doomed={d1.is_doomed} but the relation has {len(exp_rows)} rows",
              messages=d1.messages)
        if (d0.is_doomed and not d0.messages) or (d1.is_doomed and not d1.messages):
            V(["C16"], "a doomed verdict carries no message")
        if [d0.is_doomed, d1.is_doomed] != st["doomed"] and not viol:
            out["n_drift"] += 1
    except Exception as exc:  # noqa: BLE001
        V(["C16"], f"Diagnostics.run raised {type(exc).__name__}: {exc}")
    # ---------------- ill-formed requests
    for rj in st["rejects"]:
        c = rj["call"]
        fp = fingerprint(rel)
        expected = {EXC[rj["err"]]}
        if c["f"] == "chain":
            other = w.leaves[c["rhs"]]
            expected = set()
            if other.engine is not rel.engine:
                expected.add("EngineError")
            if other.columns != rel.columns:
                expected.add("ColumnError")
        props = ["C20"] + (["C14"] if "EngineError" in expected else [])
        try:
            res = w.call(c, rel)
            V(props, "an ill-formed request returned a relation instead of raising", request=c,
              expected=sorted(expected), returned=str(res))
        except Exception as exc:  # noqa: BLE001
            if type(exc).__name__ not in expected:
                V(props, f"an ill-formed request raised {type(exc).__name__} instead of the documented class",
                  request=c, expected=sorted(expected), message=str(exc)[:200])
        if fingerprint(rel) != fp:
            V(["C20", "C09"], "a rejected request changed an existing relation", request=c)
        out["counters"]["rejects_checked"] = out["counters"].get("rejects_checked", 0) + 1
    # ---------------- lazy counting leaves: C01 again, C18
    try:
        wc = World(st, "count")
        relc, _ = wc.build()
        pay = {k: wc.payloads[k] for k in ("L1", "L2")}
        result = relc.engine.execute(relc)
        ex = {k: p.starts for k, p in pay.items()}
        rows1 = project.rows(result)
        it1 = {k: pay[k].starts - ex[k] for k in pay}
        rows2 = project.rows(result)
        it2 = {k: pay[k].starts - ex[k] - it1[k] for k in pay}
        if rows1 != exp_rows:
            V(["C01"], "executed rows differ from direct evaluation (lazy leaf payloads)", observed=rows1, expected=exp_rows,
              leaves="lazy RowIterable")
        if rows2 != rows1:
            V(["C18", "C01"], "iterating the result a second time gives different rows", first=rows1, second=rows2)
        lz = st["lazy"]
        mex = {k: lz["ex"].get(k, 0) for k in pay} if isinstance(lz["ex"], dict) else {k: 0 for k in pay}
        mit = {k: lz["it"].get(k, 0) for k in pay} if isinstance(lz["it"], dict) else {k: 0 for k in pay}
        occ = {k: lz["occ"].get(k, 0) for k in pay} if isinstance(lz["occ"], dict) else {k: 0 for k in pay}
        if lz["only"]:
            out["counters"]["lazy_only"] = out["counters"].get("lazy_only", 0) + 1
            if any(ex.values()):
                V(["C18"], "execute() iterated a leaf payload of a tree made only of lazy operations", starts_at_execute=ex)
            if any(it1[k] > occ[k] or it2[k] > occ[k] for k in pay):
                V(["C18"], "one iteration of the result started more than one iteration per leaf occurrence",
                  first_iteration=it1, second_iteration=it2, occurrences=occ)
        else:
            if any(ex[k] > mex[k] for k in pay):
                V(["C18"], "execute() consumed an input more often than once per eager operation", observed=ex, model=mex)
            if any(it1[k] > mit[k] or it2[k] > mit[k] for k in pay):
                V(["C18"], "iterating the result re-consumed the input of an eager operation",
                  first_iteration=it1, second_iteration=it2, model=mit)
        if (ex, it1, it2) != (mex, mit, mit):
            out["counters"]["lazy_count_drift"] = out["counters"].get("lazy_count_drift", 0) + 1
    except Exception as exc:  # noqa: BLE001
        V(["C01", "C18"], f"execution with lazy leaf payloads raised {type(exc).__name__}: {exc}")
    # ---------------- materialized (non-sequence) counting leaves: C01 once more, C18
    if "lazym" in st:
        try:
            wm = World(st, "cmat")
            relm, _ = wm.build()
            pay = {k: wm.payloads[k] for k in ("L1", "L2")}
            result = relm.engine.execute(relm)
            ex = {k: p.starts for k, p in pay.items()}
            rows1 = project.rows(result)
            it1 = {k: pay[k].starts - ex[k] for k in pay}
            if rows1 != exp_rows:
                V(["C01"], "executed rows differ from direct evaluation (materialized non-sequence leaf payloads)", observed=rows1,
                  expected=exp_rows, leaves="MaterializedRowIterable")
            lm = st["lazym"]
            mex = {k: lm["ex"].get(k, 0) for k in pay} if isinstance(lm["ex"], dict) else {k: 0 for k in pay}
            mit = {k: lm["it"].get(k, 0) for k in pay} if isinstance(lm["it"], dict) else {k: 0 for k in pay}
            if st["lazy"]["only"] and any(ex.values()):
                V(["C18"], "execute() iterated a materialized leaf payload of a tree made only of lazy operations", starts_at_execute=ex)
            elif any(ex[k] > mex[k] for k in pay):
                V(["C18"], "execute() consumed a materialized leaf payload more often than once per eager operation", observed=ex, model=mex)
            if any(it1[k] > mit[k] for k in pay):
                V(["C18"], "iterating the result re-consumed a materialized leaf payload", observed=it1, model=mit)
            if (ex, it1) != (mex, mit):
                out["counters"]["lazy_count_drift_materialized"] = out["counters"].get("lazy_count_drift_materialized", 0) + 1
            out["counters"]["materialized_leaf_runs"] = out["counters"].get("materialized_leaf_runs", 0) + 1
        except Exception as exc:  # noqa: BLE001
            V(["C01", "C18"], f"execution with materialized leaf payloads raised {type(exc).__name__}: {exc}")
    # ---------------- hand the real tree to TLC
    if want_event:
        out["events"].append({"tree": full_tree(rel), "env": {"L1": st["l1"], "L2": st["l2"]},
                              "rows": st["rows"], "bag": False, "checks": ["wf", "den", "meta"], "case": case})


def worker(lines, ctx):
    out = {"n": 0, "nontrivial": 0, "violations": [], "counters": {}, "samples": [], "events": [], "n_drift": 0, "drift": []}
    every = ctx.get("event_every", 1)
    for i, ln in enumerate(lines):
        st = json.loads(ln)
        out["n"] += 1
        if st["fired"]:
            out["nontrivial"] += 1
        nv = len(out["violations"])
        replay_state(st, out, want_event=(i % every == 0))
        if len(out["violations"]) > 60:
            out["violations"] = trim(out["violations"])
        if len(out["samples"]) < 1 and st["fired"] and len(st["hist"]) >= 2:
            out["samples"].append({"l1": st["l1"], "hist": st["hist"], "expected_rows": st["rows"], "model_tree": canon_tree(st["tree"])})
    return out


CLAUSE_PROPS = {"wf": ["C14"], "den": ["C01", "C05"], "denbag": ["C01"], "denlist": ["C01"], "meta": ["C06"], "coh": ["C17"]}


def judge_trees(events, part: Part, family: str, clause_props=CLAUSE_PROPS):
    cases = [ev.pop("case") for ev in events]
    verdicts = tracecheck.validate("TraceTree.tla", events, batch=4000)
    part.traces += len(events)
    for v in verdicts:
        ev = v["event"]
        if v["tag"] == "TK":
            part.known[v["kf"]] += 1
            continue
        for clause, ok in v["v"].items():
            if not ok:
                part.violations.append({
                    "properties": clause_props[clause], "family": family,
                    "what": f"TLC (TraceTree) rejects the real tree: clause '{clause}' fails "
                            "(wf: structural well-formedness; den: the tree read with the reference semantics does not denote the expected rows; "
                            "meta: static bounds/columns/flags of some node untruthful; coh: select marker incoherent)",
                    "case": cases[v["id"]] if v["id"] < len(cases) else None, "real_tree": ev["tree"]})


CONFIGS = {
    "quick": [("IterQuick.cfg", 5), ("IterZeroQ.cfg", 2), ("IterAV.cfg", 2), ("IterCustom.cfg", 5)],
    "thorough": [("IterQuick.cfg", 1), ("IterZero.cfg", 1), ("IterAV.cfg", 1), ("IterCustom.cfg", 1), ("IterDeep.cfg", 4), ("IterAll.cfg", 8)],
}


def run(tier: str, seed: int) -> list[Part]:
    parts = []
    for cfg, every in CONFIGS[tier]:
        t0 = time.time()
        res = run_tlc("MC_Iter.tla", cfg, heap="6g" if tier == "thorough" else "3g", timeout=7200)
        if res.violated:
            raise MachineryError(f"model-level violation of {res.violated} in {cfg}:\n{res.error_text}")
        part = Part(name=f"iterprogram:{cfg}", cfg=cfg, states=res.distinct, transitions=res.generated)
        t1 = time.time()
        outs = parallel_replay(worker, res.raw_lines(), ctx={"event_every": every}, chunk=300)
        merge_worker_outputs(part, outs)
        t2 = time.time()
        events = [ev for o in outs for ev in o.get("events", [])]
        judge_trees(events, part, "iter")
        part.counters["replay_wall_s"] = round(t2 - t1, 1)
        part.counters["trace_wall_s"] = round(time.time() - t2, 1)
        part.counters["tlc_wall_s"] = res.wall_s
        part.wall_s = time.time() - t0
        parts.append(part)
    kf = run_tlc("MC_Iter.tla", "IterKF29.cfg", expect_violation=True, heap="3g")
    if kf.violated != "ExecOnce":
        raise MachineryError(f"companion IterKF29 no longer violates ExecOnce (got {kf.violated})")
    p = Part(name="iterprogram:F29-companion", cfg="IterKF29.cfg", states=max(kf.distinct, 1), transitions=max(kf.generated, 1))
    p.notes.append("TLC counterexample re-derives F29 from the pinned-commit rule: execute() had already executed the target of an extension operation before handing the target relation to apply_custom_unary_operation")
    parts.append(p)
    if tier == "thorough":
        parts.append(_simulated(seed))
    return parts


def _simulated(seed: int) -> Part:
    """TLC simulation mode: random behaviours of depth 6 (beyond the exhaustive bound), terminal states replayed."""
    import random

    t0 = time.time()
    res = run_tlc("MC_Iter.tla", "IterSim6.cfg", simulate="num=60", seed=seed, extra_args=["-depth", "8"], heap="4g", timeout=7200)
    if res.violated:
        raise MachineryError(f"model-level violation of {res.violated} in IterSim6.cfg (simulation):\n{res.error_text}")
    part = Part(name="iterprogram:IterSim6.cfg:simulate", cfg="IterSim6.cfg", states=max(res.distinct, 1), transitions=max(res.generated, 1), exhaustive=False)
    lines = sorted(set(res.raw_lines()))
    random.Random(seed).shuffle(lines)
    lines = lines[:30000]
    outs = parallel_replay(worker, lines, ctx={"event_every": 6}, chunk=300)
    merge_worker_outputs(part, outs)
    events = [ev for o in outs for ev in o.get("events", [])]
    judge_trees(events, part, "iter")
    part.notes.append(f"TLC -simulate num=60 -depth 8 seed {seed}: {len(lines)} distinct depth-6 histories replayed")
    part.wall_s = time.time() - t0
    return part
