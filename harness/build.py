"""Abstract (TLA+/JSON) syntax  ->  real lsst.daf.relation objects.

The abstract syntax is the one of spec/RA_*.tla (DESIGN.md appendix B).  This
module is part of the trusted base: it is a plain structural translation and is
validated by round-tripping through `project.py`.
"""
from __future__ import annotations

import json

import dataclasses
from typing import Any

from lsst.daf.relation import (
    ColumnContainer,
    ColumnExpression,
    Predicate,
    SortTerm,
    iteration,
    sql,
)
from lsst.daf.relation import _operations as ops


import os as _os

_COLLIDE = _os.environ.get("VERIF_COLLIDE", "1") == "1"


@dataclasses.dataclass(frozen=True)
class Tag:
    """Column tag used by the harness (satisfies the ColumnTag protocol)."""

    qualified_name: str
    is_key: bool = True

    def __repr__(self) -> str:
        return self.qualified_name

    def __str__(self) -> str:
        return self.qualified_name

    def __hash__(self) -> int:
        # Same scheme as lsst.daf.relation.tests.ColumnTag: deterministic and
        # independent of PYTHONHASHSEED.  With VERIF_COLLIDE=1 all tags collide
        # modulo the small hash-table sizes (as tests.ColumnTag('a') / ('y') do),
        # so equal sets built along different histories iterate in different
        # orders - the situation in which positional UNION pairing matters.
        h = int.from_bytes(self.qualified_name.encode(), byteorder="little")
        return (1 + 8 * (h % 97)) if _COLLIDE else h


NONKEY = {"v", "w"}


def tag(name: str) -> Tag:
    return Tag(name, is_key=name not in NONKEY)


def tags(names, reverse: bool | None = None) -> frozenset:
    """Column set.  Under VERIF_COLLIDE the insertion order (and with colliding
    hashes therefore the iteration order) is reversed for every other call
    site that asks for it, so that equal sets iterate differently."""
    names = list(names)
    if reverse is None:
        reverse = False
    if reverse and _COLLIDE:
        names = names[::-1]
    return frozenset(tag(n) for n in names)


FN_NAMES = {"neg": "__neg__", "add": "__add__", "sub": "__sub__", "mul": "__mul__"}
CMP_NAMES = {"eq": "__eq__", "ne": "__ne__", "lt": "__lt__", "le": "__le__", "gt": "__gt__", "ge": "__ge__"}
FN_BACK = {v: k for k, v in FN_NAMES.items()}
CMP_BACK = {v: k for k, v in CMP_NAMES.items()}


def _only(rec: dict):
    only = rec.get("only")
    if only is None:
        return None
    return (sql.Engine,) if only == "sql" else (iteration.Engine,)


def expr(e: dict) -> ColumnExpression:
    x = e["x"]
    if x == "ref":
        return ColumnExpression.reference(tag(e["c"]), dtype=int)
    if x == "lit":
        return ColumnExpression.literal(e["v"], dtype=int)
    if x == "fn":
        args = [expr(a) for a in e["args"]]
        return ColumnExpression.function(
            FN_NAMES[e["f"]], *args, dtype=int, supporting_engine_types=_only(e)
        )
    raise ValueError(f"bad abstract expression {e!r}")


def container(k: dict) -> ColumnContainer:
    if k["k"] == "range":
        return ColumnContainer.range_literal(range(k["s"], k["t"], k["st"]))
    if k["k"] == "seq":
        return ColumnContainer.sequence([expr(i) for i in k["items"]], dtype=int)
    raise ValueError(f"bad abstract container {k!r}")


def pred(p: dict) -> Predicate:
    k = p["p"]
    if k == "lit":
        return Predicate.literal(bool(p["v"]))
    if k == "pref":
        return Predicate.reference(tag(p["c"]))
    if k == "cmp":
        return expr(p["l"]).predicate_method(CMP_NAMES[p["f"]], expr(p["r"]), supporting_engine_types=_only(p))
    if k == "not":
        return pred(p["q"]).logical_not()
    if k == "and":
        from lsst.daf.relation import LogicalAnd

        return LogicalAnd(tuple(pred(q) for q in p["qs"]))
    if k == "or":
        from lsst.daf.relation import LogicalOr

        return LogicalOr(tuple(pred(q) for q in p["qs"]))
    if k == "in":
        return container(p["k"]).contains(expr(p["e"]))
    raise ValueError(f"bad abstract predicate {p!r}")


def sort_terms(terms: list[dict]) -> tuple[SortTerm, ...]:
    return tuple(SortTerm(expr(t["e"]), bool(t["asc"])) for t in terms)


def unary_op(o: dict) -> Any:
    """Abstract unary operation -> real UnaryOperation object (raw constructor).

    May raise exactly what the real constructors raise (e.g. ValueError for
    Slice); callers that model construction errors catch them.
    """
    k = o["o"]
    if k == "calc":
        return ops.Calculation(tag(o["tag"]), expr(o["e"]))
    if k == "proj":
        return ops.Projection(tags(o["cols"], reverse=True))
    if k == "sel":
        return ops.Selection(pred(o["p"]))
    if k == "dedup":
        return ops.Deduplication()
    if k == "slice":
        return ops.Slice(o["a"], None if o["b"] == -1 else o["b"])
    if k == "sort":
        return ops.Sort(sort_terms(o["terms"]))
    if k == "id":
        from lsst.daf.relation import Identity

        return Identity()
    if k == "cust":
        from .custom_ops import CLASSES

        return CLASSES[o["f"]]()
    if k == "pjoin":
        # a resolved partial join as the model writes it: fixed leaf, predicate, common columns, side
        if not o.get("res", True):
            # common columns not resolved yet: Join(...) as constructed
            return ops.Join(pred(o["p"])).partial(fixed_leaf(o["fixed"]), is_lhs=bool(o["lhs"]))
        common = frozenset(tags(o["common"]))
        return ops.Join(pred(o["p"]), min_columns=common, max_columns=common).partial(fixed_leaf(o["fixed"]), is_lhs=bool(o["lhs"]))
    raise ValueError(f"bad abstract operation {o!r}")


_fixed: dict = {}


def fixed_leaf(t: dict):
    """The real relation for a fixed join operand of the model (a leaf F1..F4 of an iteration engine,
    possibly under unary operations)."""
    from lsst.daf.relation import LeafRelation, UnaryOperationRelation, iteration

    if t["k"] == "un":
        key = json.dumps(t, sort_keys=True)
        if key not in _fixed:
            target = fixed_leaf(t["t"])
            op = unary_op(t["op"])
            _fixed[key] = UnaryOperationRelation(operation=op, target=target, columns=frozenset(op.applied_columns(target)))
        return _fixed[key]

    key = (t["id"], tuple(sorted(t["cols"])))
    if key not in _fixed:
        eng = _fixed.setdefault("eng", iteration.Engine(name="it1"))
        _fixed[key] = LeafRelation(eng, tags(t["cols"]), iteration.RowSequence([]), name=t["id"], min_rows=0, max_rows=None)
    return _fixed[key]


def row(r, cols=None) -> dict:
    """Abstract row (JSON object, or [] for the zero-column row) -> dict keyed by Tag."""
    if isinstance(r, list):
        assert not r, r
        return {}
    return {tag(k): v for k, v in r.items()}


def rows(rs) -> list[dict]:
    return [row(r) for r in rs]
