"""Family 'idjoin' — IdJoin.tla replayed into the real library: join-identity
relations under transfers, joined with a fixed operand under every explicit
preferred-engine option (properties C14 and C03; finding F28).

Per emitted TLC state (identity engine, fixed-operand engine, transfers, final
join call): the real calls are made through the public API; an accepted result
is projected and judged by TLC (TraceTree: well-formedness - no transfer from
an engine to itself, engine consistency - and denotation = rows of the fixed
operand); requests the model refuses must be refused by the real code with a
documented error class.  Structural differences are drift.
"""
from __future__ import annotations

import json
import time

from . import build, project
from .core import MachineryError, Part, merge_worker_outputs, parallel_replay, trim
from .fam_iter import canon_tree, full_tree, judge_trees
from .tlc import run_tlc

_st: dict = {}
DOCUMENTED = ("EngineError", "ColumnError", "RelationalAlgebraError")


def world():
    if "w" not in _st:
        import sqlalchemy

        from lsst.daf.relation import LeafRelation, iteration, sql

        engs = {"sql": sql.Engine(name="sql"), "it1": iteration.Engine(name="it1"), "it2": iteration.Engine(name="it2")}
        rows = [{"a": 0, "c": 1}, {"a": 1, "c": 0}, {"a": 1, "c": 1}]
        fixed = {}
        ident = {}
        for name, e in engs.items():
            ident[name] = e.make_join_identity_relation(name="I")
            cols = build.tags(("a", "c"))
            if name == "sql":
                table = sqlalchemy.table("F", sqlalchemy.column("a"), sqlalchemy.column("c"))
                payload = sql.Payload(table, columns_available={build.tag(c): table.c[c] for c in ("a", "c")})
                fixed[name] = e.make_leaf(cols, payload, name="F", min_rows=3, max_rows=3)
            else:
                fixed[name] = LeafRelation(e, cols, iteration.RowSequence(build.rows(rows)), name="F", min_rows=3, max_rows=3)
        # the second kind of fixed operand: a zero-column projection of a one-row leaf (a join identity)
        unit = {}
        for name, e in engs.items():
            cols = build.tags(("a",))
            if name == "sql":
                table = sqlalchemy.table("U", sqlalchemy.column("a"))
                leaf = e.make_leaf(cols, sql.Payload(table, columns_available={build.tag("a"): table.c["a"]}), name="U", min_rows=1, max_rows=1)
            else:
                leaf = LeafRelation(e, cols, iteration.RowSequence(build.rows([{"a": 1}])), name="U", min_rows=1, max_rows=1)
            unit[name] = leaf.with_only_columns(frozenset())
        # the ordinary source S {a, b}
        srows = [{"a": 0, "b": 0}, {"a": 1, "b": 1}]
        for name, e in engs.items():
            cols = build.tags(("a", "b"))
            if name == "sql":
                table = sqlalchemy.table("S", sqlalchemy.column("a"), sqlalchemy.column("b"))
                ident[("S", name)] = e.make_leaf(cols, sql.Payload(table, columns_available={build.tag(c): table.c[c] for c in ("a", "b")}),
                                                 name="S", min_rows=2, max_rows=2)
            else:
                ident[("S", name)] = LeafRelation(e, cols, iteration.RowSequence(build.rows(srows)), name="S", min_rows=2, max_rows=2)
        _st["w"] = (engs, ident, {"F": fixed, "U": unit}, rows)
    return _st["w"]


def do_join(c, rel, fixed, engs):
    from lsst.daf.relation import Join

    pref = None if c["pref"] == "none" else engs[c["pref"]]
    return Join().partial(fixed, is_lhs=bool(c["lhs"])).apply(rel, preferred_engine=pref, backtrack=bool(c["backtrack"]), transfer=bool(c["transfer"]),
                                                              require_preferred_engine=bool(c.get("require", False)))


def ops_outside(rel, engine) -> int:
    """Operation nodes of a real tree that live outside `engine` (markers are walked through their target)."""
    from lsst.daf.relation import BinaryOperationRelation, MarkerRelation, UnaryOperationRelation

    match rel:
        case UnaryOperationRelation(target=target):
            return ops_outside(target, engine) + (1 if rel.engine is not engine else 0)
        case BinaryOperationRelation(lhs=lhs, rhs=rhs):
            return ops_outside(lhs, engine) + ops_outside(rhs, engine) + (1 if rel.engine is not engine else 0)
        case MarkerRelation(target=target):
            return ops_outside(target, engine)
    return 0


def replay_state(st, out):
    engs, ident, fixed, rows = world()
    case = {k: st[k] for k in ("ei", "ef", "fk", "src", "hist")}
    rel = ident[st["ei"]] if st["src"] == "I" else ident[("S", st["ei"])]
    F = fixed[st["fk"]][st["ef"]]
    env = {"I": [[]], "F": rows, "U": [{"a": 1}], "S": [{"a": 0, "b": 0}, {"a": 1, "b": 1}]}
    try:
        for c in st["hist"]:
            if c["f"] == "xfer":
                rel = rel.transferred_to(engs[c["dest"]])
            elif c["f"] == "un":
                rel = build.unary_op(c["op"]).apply(rel)
            elif c["f"] == "mat":
                rel = rel.materialized(c["name"])
            else:
                before = rel
                rel = do_join(c, rel, F, engs)
                if c.get("require") and not c["transfer"] and c["pref"] != "none":
                    # C03: with require_preferred_engine the call adds no operation outside the preferred engine
                    pe = engs[c["pref"]]
                    if ops_outside(rel, pe) > ops_outside(before, pe) + ops_outside(F, pe):
                        if st.get("kf31") and c["pref"] != st["ef"]:
                            out["known"]["F31"] = out["known"].get("F31", 0) + 1
                        else:
                            out["violations"].append({"properties": ["C03"], "family": "idjoin", "case": case,
                                                      "what": "require_preferred_engine=True, yet the call added an operation outside the preferred engine"})
    except Exception as exc:  # noqa: BLE001
        out["violations"].append({"properties": ["C03", "C14"], "family": "idjoin", "case": case,
                                  "what": f"a request the specification accepts raised {type(exc).__name__}: {str(exc)[:200]}"})
        return
    try:
        hash(rel)
    except Exception as exc:  # noqa: BLE001
        out["violations"].append({"properties": ["C09"], "family": "idjoin", "case": case, "what": f"hash() of the result raised {type(exc).__name__}"})
    real = full_tree(rel)
    if canon_tree(project.strip_sel_target(real)) != canon_tree(project.strip_sel_target(st["tree"])):
        out["n_drift"] += 1
        if len(out["drift"]) < 3:
            out["drift"].append({"what": "tree differs from the model's", "case": case, "real": canon_tree(real), "model": canon_tree(st["tree"])})
    out["events"].append({"tree": real, "env": env, "rows": st["rows"], "bag": True,
                          "checks": ["wf", "denbag"], "case": case})
    # requests the model refuses here
    for r in st["refused"]:
        c = r["call"]
        try:
            got = do_join(c, rel, F, engs)
        except Exception as exc:  # noqa: BLE001
            if type(exc).__name__ not in DOCUMENTED:
                out["violations"].append({"properties": ["C20"], "family": "idjoin", "case": dict(case, call=c),
                                          "what": f"an ill-formed join request raised {type(exc).__name__} instead of a documented error class"})
            out["counters"]["refusals_checked"] = out["counters"].get("refusals_checked", 0) + 1
            continue
        # accepted by the code, refused by the model: judged on its merits by TLC (drift unless ill-formed / wrong rows)
        out["n_drift"] += 1
        out["events"].append({"tree": full_tree(got), "env": env, "rows": [], "bag": True,
                              "checks": ["wf"], "case": dict(case, call=c, note="accepted by the code, refused by the model")})


def worker(lines, ctx):
    out = {"n": 0, "nontrivial": 0, "violations": [], "counters": {}, "samples": [], "events": [], "n_drift": 0, "drift": [], "known": {}}
    for ln in lines:
        st = json.loads(ln)
        out["n"] += 1
        if st["fired"]:
            out["nontrivial"] += 1
        replay_state(st, out)
        if len(out["violations"]) > 60:
            out["violations"] = trim(out["violations"])
        if len(out["samples"]) < 1 and st["fired"]:
            out["samples"].append({"ei": st["ei"], "ef": st["ef"], "fk": st["fk"], "hist": st["hist"], "model_tree": canon_tree(st["tree"])})
    return out


CLAUSES = {"wf": ["C14"], "den": ["C03"], "denbag": ["C03"], "denlist": ["C03"], "meta": ["C06"], "coh": ["C17"]}


def run(tier: str, seed: int) -> list[Part]:
    parts = []
    t0 = time.time()
    res = run_tlc("MC_IdJoin.tla", "IdJoinQuick.cfg" if tier == "quick" else "IdJoinFull.cfg")
    if res.violated:
        raise MachineryError(f"model-level violation of {res.violated} in IdJoin:\n{res.error_text}")
    part = Part(name=f"idjoin:{res.cfg}", cfg=res.cfg, states=res.distinct, transitions=res.generated)
    outs = parallel_replay(worker, res.raw_lines(), chunk=100)
    merge_worker_outputs(part, outs)
    events = [ev for o in outs for ev in o.get("events", [])]
    judge_trees(events, part, "idjoin", CLAUSES)
    part.wall_s = time.time() - t0
    parts.append(part)
    kf = run_tlc("MC_IdJoin.tla", "IdJoinKF28.cfg", expect_violation=True)
    if kf.violated != "WF":
        raise MachineryError(f"companion IdJoinKF28 no longer violates WF (got {kf.violated})")
    p = Part(name="idjoin:F28-companion", cfg="IdJoinKF28.cfg", states=max(kf.distinct, 1), transitions=max(kf.generated, 1))
    p.notes.append("TLC counterexample re-derives F28 from the pinned-commit rule: backtracking re-wraps the fixed operand a join-identity short cut handed back in a transfer to its own engine")
    parts.append(p)
    kf = run_tlc("MC_IdJoin.tla", "IdJoinKF31.cfg", expect_violation=True)
    if kf.violated != "KF31Gone":
        raise MachineryError(f"companion IdJoinKF31 no longer violates KF31Gone (got {kf.violated})")
    p = Part(name="idjoin:F31-companion", cfg="IdJoinKF31.cfg", states=max(kf.distinct, 1), transitions=max(kf.generated, 1))
    p.notes.append("TLC counterexample shows the excluded class (open finding F31) still violates: a partial join requested with a required preferred engine other than the fixed operand's lands outside it")
    parts.append(p)
    kf = run_tlc("MC_IdJoin.tla", "IdJoinKF30.cfg", expect_violation=True)
    if kf.violated != "WF":
        raise MachineryError(f"companion IdJoinKF30 no longer violates WF (got {kf.violated})")
    p = Part(name="idjoin:F30-companion", cfg="IdJoinKF30.cfg", states=max(kf.distinct, 1), transitions=max(kf.generated, 1))
    p.notes.append("TLC counterexample re-derives F30 from the pinned-commit rule: the SQL engine conforms an ignored join-identity operand of another engine and hands it back inside one of its Select markers")
    parts.append(p)
    return parts
