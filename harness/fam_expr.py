"""Family 'expr' — properties C12 (column expressions mean the same in every
engine) and C13 (folding / flattening / required columns are sound).

Part A (spec -> code): TLC enumerates ExprGen.tla; every state carries the
  predicate/expression and its truth table computed by TLC.  The real
  iteration-engine callable and the real SQL translation (run by SQLite) are
  evaluated on the same rows and compared with TLC's table; the real
  as_trivial / flatten_logical_and / Selection normalisation / columns_required
  are recorded.
Part B (code -> spec): the recorded real answers (and those for deeper random
  expressions generated from VERIF_SEED) are validated by TLC (TraceExpr.tla).
"""
from __future__ import annotations

import json
import os
import random
import tempfile
import time
from pathlib import Path

from . import build, project
from .core import MachineryError, Part, merge_worker_outputs, parallel_replay
from .tlc import SPEC, TlcFailure, _unescape, java_cmd, run_tlc

ERR = -99999
_state: dict = {}


def _sql_setup(lo: int, hi: int):
    """Per-process SQLite database holding every row over lo..hi."""
    key = ("db", lo, hi)
    if key in _state:
        return _state[key]
    import sqlalchemy

    from lsst.daf.relation import sql

    eng = sqlalchemy.create_engine("sqlite://")
    md = sqlalchemy.MetaData()
    t = sqlalchemy.Table(
        "t",
        md,
        sqlalchemy.Column("i", sqlalchemy.Integer, primary_key=True),
        sqlalchemy.Column("a", sqlalchemy.Integer),
        sqlalchemy.Column("b", sqlalchemy.Integer),
    )
    md.create_all(eng)
    n = hi - lo + 1
    rows = [{"i": i, "a": lo + (i - 1) // n, "b": lo + (i - 1) % n} for i in range(1, n * n + 1)]
    conn = eng.connect()
    conn.execute(t.insert(), rows)
    sql_engine = sql.Engine()
    avail = {build.tag("a"): t.c.a, build.tag("b"): t.c.b}
    _state[key] = (conn, t, sql_engine, avail, rows)
    return _state[key]


def observe(kind: str, e: dict, lo: int, hi: int) -> dict:
    """Evaluate the real code on every row; return the recorded event."""
    import sqlalchemy

    from lsst.daf.relation import Selection, flatten_logical_and, iteration

    conn, t, sql_engine, avail, rows = _sql_setup(lo, hi)
    it_engine = _state.setdefault("it", iteration.Engine())
    a, b = build.tag("a"), build.tag("b")
    ev: dict = {"kind": kind, "e": e, "lo": lo, "hi": hi, "notes": []}
    real = build.pred(e) if kind == "pred" else build.expr(e)
    # ---- iteration callable
    try:
        fn = it_engine.convert_predicate(real) if kind == "pred" else it_engine.convert_column_expression(real)
    except Exception as exc:  # noqa: BLE001
        fn = None
        ev["notes"].append(f"iteration conversion raised {type(exc).__name__}: {exc}")
    it_tab = []
    for r in rows:
        if fn is None:
            it_tab.append(ERR)
            continue
        try:
            v = fn({a: r["a"], b: r["b"]})
            it_tab.append((1 if v else 0) if kind == "pred" else int(v))
        except Exception as exc:  # noqa: BLE001
            it_tab.append(ERR)
            if len(ev["notes"]) < 3:
                ev["notes"].append(f"iteration callable raised {type(exc).__name__}: {exc}")
    ev["iter"] = it_tab
    # ---- required columns, evaluation on restricted rows
    try:
        req = real.columns_required
        ev["req"] = sorted(c.qualified_name for c in req)
        rit = []
        for r in rows:
            full = {a: r["a"], b: r["b"]}
            try:
                v = fn({c: full[c] for c in req})
                rit.append((1 if v else 0) if kind == "pred" else int(v))
            except Exception:  # noqa: BLE001
                rit.append(ERR)
        ev["riter"] = rit
    except Exception as exc:  # noqa: BLE001
        ev["req"] = ["<error>"]
        ev["riter"] = [ERR] * len(rows)
        ev["notes"].append(f"columns_required raised {type(exc).__name__}: {exc}")
    # ---- SQL translation run by SQLite
    try:
        if kind == "pred":
            sp = sql_engine.convert_predicate(real, avail)
            q = sqlalchemy.select(t.c.i).where(sp)
            hit = {row[0] for row in conn.execute(q)}
            ev["sql"] = [1 if r["i"] in hit else 0 for r in rows]
        else:
            se = sql_engine.convert_column_expression(real, avail)
            q = sqlalchemy.select(t.c.i, se)
            got = {row[0]: row[1] for row in conn.execute(q)}
            ev["sql"] = [int(got[r["i"]]) if got.get(r["i"]) is not None else ERR for r in rows]
    except Exception as exc:  # noqa: BLE001
        ev["sql"] = [ERR] * len(rows)
        ev["notes"].append(f"SQL translation/execution raised {type(exc).__name__}: {exc}")
    # ---- folding / flattening / normalisation
    if kind == "pred":
        try:
            tr = real.as_trivial()
            ev["triv"] = "T" if tr is True else "F" if tr is False else "N" if tr is None else f"?{tr!r}"
        except Exception as exc:  # noqa: BLE001
            ev["triv"] = "ERR"
            ev["notes"].append(f"as_trivial raised {type(exc).__name__}")
        try:
            fl = flatten_logical_and(real)
            if fl is False:
                ev["flat"] = {"ok": False, "ps": []}
            else:
                ev["flat"] = {"ok": True, "ps": [project.pred(p) for p in fl]}
        except Exception as exc:  # noqa: BLE001
            ev["flat"] = {"ok": True, "ps": [{"p": "lit", "v": False}], "err": True}
            ev["notes"].append(f"flatten_logical_and raised {type(exc).__name__}: {exc}")
        try:
            ev["norm"] = project.pred(Selection(real).predicate)
        except Exception as exc:  # noqa: BLE001
            ev["norm"] = {"p": "lit", "v": False}
            ev["norm_err"] = True
            ev["notes"].append(f"Selection() raised {type(exc).__name__}: {exc}")
        # the four-way agreement of SQL WHERE-term flattening
        try:
            terms = sql_engine.convert_flattened_predicate(real, avail)
            q = sqlalchemy.select(t.c.i)
            for term in terms:
                q = q.where(term)
            hit = {row[0] for row in conn.execute(q)}
            ev["sqlflat"] = [1 if r["i"] in hit else 0 for r in rows]
        except Exception as exc:  # noqa: BLE001
            ev["sqlflat"] = [ERR] * len(rows)
            ev["notes"].append(f"convert_flattened_predicate raised {type(exc).__name__}: {exc}")
        # the declared column set is a VALUE: using the predicate (as a join predicate against a relation that
        # provides column b, in a selection, in a negation) must not change what it declares
        try:
            from lsst.daf.relation import Join, LeafRelation
            from lsst.daf.relation.iteration import RowSequence

            fixed = _state.get("fixed_b") or _state.setdefault("fixed_b", LeafRelation(it_engine, frozenset({b}), RowSequence([]), name="F"))
            pj = Join(real).partial(fixed)
            _ = pj.columns_required
            _ = real.logical_not().columns_required
            after = sorted(c.qualified_name for c in real.columns_required)
            if after != ev["req"]:
                ev["req_mutated"] = after
        except Exception as exc:  # noqa: BLE001
            ev["notes"].append(f"PartialJoin.columns_required raised {type(exc).__name__}: {exc}")
    else:
        ev["triv"] = "N"
        ev["flat"] = {"ok": True, "ps": []}
        ev["norm"] = {"p": "lit", "v": True}
    return ev


def _bad_rows(tab_obs, tab_exp, lo, hi, limit=3):
    n = hi - lo + 1
    out = []
    for i, (o, x) in enumerate(zip(tab_obs, tab_exp)):
        if o != x:
            out.append({"row": {"a": lo + i // n, "b": lo + i % n}, "observed": "raised" if o == ERR else o, "expected": x})
            if len(out) >= limit:
                break
    return out


def worker(lines: list[str], ctx: dict) -> dict:
    """Binding A on a chunk of emitted ExprGen states."""
    out = {"n": 0, "nontrivial": 0, "violations": [], "counters": {}, "samples": [], "events": [], "n_drift": 0, "drift": []}
    cnt = out["counters"]
    for ln in lines:
        st = json.loads(ln)
        kind, e, lo, hi = st["kind"], st["e"], st["lo"], st["hi"]
        exp = [(1 if v else 0) for v in st["table"]] if kind == "pred" else [int(v) for v in st["table"]]
        out["n"] += 1
        if len(set(exp)) > 1:
            out["nontrivial"] += 1
        ev = observe(kind, e, lo, hi)
        case = {"kind": kind, "e": e, "lo": lo, "hi": hi}
        if ev["iter"] != exp:
            out["violations"].append(
                {"property": "C12", "what": "iteration-engine callable disagrees with the reference meaning",
                 "case": case, "rows": _bad_rows(ev["iter"], exp, lo, hi), "notes": ev["notes"], "family": "expr"})
        if ev["sql"] != exp:
            out["violations"].append(
                {"property": "C12", "what": "SQL translation evaluated by SQLite disagrees with the reference meaning",
                 "case": case, "rows": _bad_rows(ev["sql"], exp, lo, hi), "notes": ev["notes"], "family": "expr"})
        if kind == "pred":
            if ev["sqlflat"] != exp:
                out["violations"].append(
                    {"property": "C12", "what": "SQL WHERE terms from convert_flattened_predicate disagree with the reference meaning",
                     "case": case, "rows": _bad_rows(ev["sqlflat"], exp, lo, hi), "notes": ev["notes"], "family": "expr"})
            t = ev["triv"]
            if (t == "T" and not all(exp)) or (t == "F" and any(exp)) or t not in ("T", "F", "N"):
                out["violations"].append(
                    {"property": "C13", "what": f"as_trivial() answered {t} but the predicate is not constant {t}",
                     "case": case, "family": "expr"})
            elif t != st["triv"]:
                out["n_drift"] += 1
                out["drift"].append({"what": "as_trivial differs from model (both sound)", "case": case, "real": t, "model": st["triv"]})
            if t in ("T", "F"):
                cnt["folded"] = cnt.get("folded", 0) + 1
            if not ev["flat"]["ok"]:
                cnt["flatten_false"] = cnt.get("flatten_false", 0) + 1
                if any(exp):
                    out["violations"].append(
                        {"property": "C13", "what": "flatten_logical_and() returned False for a satisfiable predicate",
                         "case": case, "family": "expr"})
            elif len(ev["flat"]["ps"]) != 1:
                cnt["flatten_split"] = cnt.get("flatten_split", 0) + 1
            if ev.get("norm_err") or ev["flat"].get("err"):
                out["violations"].append(
                    {"property": "C13", "what": "flatten/Selection raised", "case": case, "notes": ev["notes"], "family": "expr"})
        if ev["riter"] != exp:
            out["violations"].append(
                {"property": "C13", "what": "evaluation on the row restricted to columns_required fails or differs",
                 "case": case, "declared": ev["req"], "rows": _bad_rows(ev["riter"], exp, lo, hi), "family": "expr"})
        elif sorted(ev["req"]) != sorted(st["req"]):
            out["violations"].append(
                {"property": "C13", "what": "columns_required is not exactly the set of columns the expression depends on syntactically",
                 "case": case, "declared": ev["req"], "expected": sorted(st["req"]), "family": "expr"})
        if "req_mutated" in ev:
            out["violations"].append(
                {"property": "C13", "what": "columns_required of a predicate changed after the predicate was used as a join predicate "
                                            "(the declared column set is no longer the set the predicate depends on)",
                 "case": case, "declared_before": ev["req"], "declared_after": ev.pop("req_mutated"), "family": "expr"})
        # hand every recorded answer to TLC as well (binding B)
        ev.pop("notes", None)
        ev.pop("sqlflat", None)
        ev.pop("norm_err", None)
        ev["flat"].pop("err", None)
        out["events"].append(ev)
        if len(out["samples"]) < 2 and kind == "pred" and e["p"] in ("and", "or", "in"):
            out["samples"].append({"e": e, "true_rows": sum(exp), "rows": len(exp)})
    return out


# --------------------------------------------------------------------------
# random deeper expressions (seeded) for binding B
# --------------------------------------------------------------------------
def random_expr(rng: random.Random, depth: int) -> dict:
    if depth <= 0 or rng.random() < 0.3:
        return rng.choice([{"x": "ref", "c": "a"}, {"x": "ref", "c": "b"}, {"x": "lit", "v": rng.randint(-3, 4)}])
    f = rng.choice(["neg", "add", "sub", "mul"])
    if f == "neg":
        return {"x": "fn", "f": "neg", "args": [random_expr(rng, depth - 1)]}
    return {"x": "fn", "f": f, "args": [random_expr(rng, depth - 1), random_expr(rng, depth - 1)]}


def _has_ref(e: dict) -> bool:
    return e["x"] == "ref" or (e["x"] == "fn" and any(_has_ref(a) for a in e["args"]))


def random_pred(rng: random.Random, depth: int) -> dict:
    r = rng.random()
    if depth <= 0 or r < 0.25:
        k = rng.random()
        if k < 0.1:
            return {"p": "lit", "v": rng.random() < 0.5}
        if k < 0.55:
            return {"p": "cmp", "f": rng.choice(["eq", "ne", "lt", "le", "gt", "ge"]),
                    "l": random_expr(rng, 2), "r": random_expr(rng, 1)}
        if k < 0.85:
            st = rng.choice([-4, -3, -2, -1, 1, 2, 3, 5])
            return {"p": "in", "e": random_expr(rng, 1),
                    "k": {"k": "range", "s": rng.randint(-9, 9), "t": rng.randint(-9, 9), "st": st}}
        return {"p": "in", "e": random_expr(rng, 1),
                "k": {"k": "seq", "items": [random_expr(rng, 1) for _ in range(rng.randint(0, 3))]}}
    if r < 0.4:
        return {"p": "not", "q": random_pred(rng, depth - 1)}
    k = "and" if r < 0.72 else "or"
    return {"p": k, "qs": [random_pred(rng, depth - 1) for _ in range(rng.randint(0, 3))]}


def random_worker(seeds: list[str], ctx: dict) -> dict:
    out = {"n": 0, "nontrivial": 0, "violations": [], "counters": {}, "samples": [], "events": []}
    for s in seeds:
        rng = random.Random(int(s))
        if rng.random() < 0.15:
            e = random_expr(rng, 3)
            kind = "expr"
        else:
            e = random_pred(rng, ctx.get("depth", 4))
            kind = "pred"
        ev = observe(kind, e, ctx.get("lo", -3), ctx.get("hi", 4))
        ev.pop("notes", None)
        ev.pop("sqlflat", None)
        ev.pop("norm_err", None)
        ev["flat"].pop("err", None)
        out["events"].append(ev)
        out["n"] += 1
        if len(out["samples"]) < 1:
            out["samples"].append({"random": True, "e": e})
    return out


def tlc_validate_events(events: list[dict], part: Part, label: str) -> None:
    """Binding B: let TLC judge recorded answers (TraceExpr.tla)."""
    if not events:
        return
    import subprocess

    scratch = Path(tempfile.mkdtemp(prefix="verif-trace-"))
    try:
        batch = 6000
        for k in range(0, len(events), batch):
            chunk = events[k : k + batch]
            tf = scratch / f"trace{k}.ndjson"
            with open(tf, "w") as f:
                for i, ev in enumerate(chunk):
                    ev = dict(ev)
                    ev["id"] = k + i
                    f.write(json.dumps(ev) + "\n")
            (scratch / "TraceExpr.cfg").write_text("SPECIFICATION Spec\nCHECK_DEADLOCK FALSE\n")
            cmd = java_cmd("3g") + ["-workers", "1", "-metadir", str(scratch / f"meta{k}"), "-noGenerateSpecTE",
                                    "-config", str(scratch / "TraceExpr.cfg"), "TraceExpr.tla"]
            env = dict(os.environ, TRACE_FILE=str(tf))
            p = subprocess.run(cmd, cwd=SPEC, capture_output=True, text=True, env=env, timeout=1800)
            done = False
            for line in p.stdout.splitlines():
                if line.startswith('<<"TVDONE"'):
                    done = True
                elif line.startswith('<<"TV", "'):
                    payload = _unescape(line[len('<<"TV", "') : -len('">>')])
                    v = json.loads(payload)
                    ev = chunk[v["id"] - k]
                    failing = [c for c, ok in v["v"].items() if not ok]
                    for c in failing:
                        prop = "C12" if c in ("iter", "sql") else "C13"
                        part.violations.append(
                            {"property": prop, "family": "expr",
                             "what": f"TLC (TraceExpr) rejects the recorded real answer: clause '{c}' fails",
                             "case": {"kind": ev["kind"], "e": ev["e"], "lo": ev["lo"], "hi": ev["hi"]},
                             "recorded": {kk: ev[kk] for kk in ("triv", "flat", "norm", "req") if kk in ev},
                             "source": label})
            if not done:
                raise MachineryError(f"TraceExpr did not finish the batch:\n{p.stdout[-3000:]}\n{p.stderr[-2000:]}")
            part.traces += len(chunk)
    finally:
        import shutil

        shutil.rmtree(scratch, ignore_errors=True)


_LAST_EVENTS: list = []


def _corruptions(events):
    """One changed field per copy: each must make a TraceExpr clause fail."""
    import copy

    out = []
    for ev in events:
        if ev["kind"] != "pred":
            continue
        kinds = {k for k, _ in out}
        varied = len(set(ev["iter"])) > 1
        if varied and "one truth-table entry of the iteration callable flipped" not in kinds:
            e = copy.deepcopy(ev)
            e["iter"][0] = 1 - e["iter"][0]
            out.append(("one truth-table entry of the iteration callable flipped", e))
        elif varied and "as_trivial claims a constant for a non-constant predicate" not in kinds and ev["triv"] == "N":
            e = copy.deepcopy(ev)
            e["triv"] = "T"
            out.append(("as_trivial claims a constant for a non-constant predicate", e))
        elif varied and "a conjunct dropped from flatten_logical_and" not in kinds and ev["flat"]["ok"] and len(ev["flat"]["ps"]) >= 1 \
                and not all(ev["iter"]):
            e = copy.deepcopy(ev)
            e["flat"]["ps"] = []
            out.append(("a conjunct dropped from flatten_logical_and", e))
        elif "a required column omitted" not in kinds and ev["req"]:
            e = copy.deepcopy(ev)
            e["req"] = e["req"][1:]
            out.append(("a required column omitted", e))
        if len(out) >= 4:
            break
    return out


def run(tier: str, seed: int) -> list[Part]:
    parts: list[Part] = []
    cfgs = ["ExprQuick.cfg"] if tier == "quick" else ["ExprQuick.cfg", "ExprRich.cfg", "ExprDeep.cfg"]
    for cfg in cfgs:
        t0 = time.time()
        res = run_tlc("MC_Expr.tla", cfg)
        if res.violated:
            raise MachineryError(f"model-level violation of {res.violated} in {cfg}:\n{res.error_text}")
        part = Part(name=f"exprgen:{cfg}", cfg=cfg, states=res.distinct, transitions=res.generated)
        outs = parallel_replay(worker, res.raw_lines(), chunk=300)
        merge_worker_outputs(part, outs)
        events = [ev for o in outs for ev in o.get("events", [])]
        # binding B on a slice of the enumerated states (all of them in thorough)
        if tier == "quick":
            rng = random.Random(seed)
            rng.shuffle(events)
            events = events[:3000]
        tlc_validate_events(events, part, f"enumerated:{cfg}")
        if cfg == "ExprQuick.cfg":
            _LAST_EVENTS[:] = events[:400]
        part.counters["tlc_wall_s"] = res.wall_s
        part.counters["tlc_cached"] = int(res.cached)
        part.wall_s = time.time() - t0
        parts.append(part)
    # F3 companion: the pinned-commit translation must still be refuted by TLC
    t0 = time.time()
    kf = run_tlc("MC_Expr.tla", "ExprKF3.cfg", expect_violation=True)
    p3 = Part(name="exprgen:F3-companion", cfg="ExprKF3.cfg", states=max(kf.distinct, 1), transitions=max(kf.generated, 1))
    if kf.violated != "SqlAgrees":
        raise MachineryError("companion config ExprKF3 (old range translation) no longer violates SqlAgrees")
    p3.notes.append("TLC refutes the pinned-commit range translation (finding F3, fixed in the code): " + (kf.violated or ""))
    p3.wall_s = time.time() - t0
    parts.append(p3)
    # the binding binds: corrupted recorded answers must be rejected by TLC
    selftest = Part(name="traceexpr:corrupt-one-field", cfg="TraceExpr", states=1, transitions=1, exhaustive=False)
    corrupted = _corruptions(_LAST_EVENTS)
    before = len(selftest.violations)
    tlc_validate_events([c for _, c in corrupted], selftest, "selftest")
    rejected = {json.dumps(v["case"], sort_keys=True) + v["what"] for v in selftest.violations}
    per_event = {}
    for v in selftest.violations:
        per_event.setdefault(json.dumps(v["case"]["e"], sort_keys=True), []).append(v["what"])
    for kind, ev in corrupted:
        if json.dumps(ev["e"], sort_keys=True) not in per_event:
            raise MachineryError(f"binding self-test: TLC accepted a corrupted recorded answer ({kind})")
    selftest.nontrivial = len(corrupted)
    selftest.notes.append("corruptions rejected: " + ", ".join(k for k, _ in corrupted))
    selftest.samples.append({"corruption": corrupted[0][0]} if corrupted else {})
    selftest.violations = []          # expected rejections, not violations of the code
    parts.append(selftest)
    # random deeper expressions -> real code -> TLC
    t0 = time.time()
    n = 1500 if tier == "quick" else 20000
    part = Part(name="random-deep", cfg="TraceExpr", exhaustive=False)
    seeds = [str(seed * 1000003 + i) for i in range(n)]
    outs = parallel_replay(random_worker, seeds, ctx={"depth": 4 if tier == "quick" else 5}, chunk=250)
    merge_worker_outputs(part, outs)
    part.replayed = 0
    events = [ev for o in outs for ev in o.get("events", [])]
    part.nontrivial = sum(1 for ev in events if len(set(ev["iter"])) > 1)
    tlc_validate_events(events, part, "random")
    part.states = 1
    part.transitions = 1
    part.wall_s = time.time() - t0
    parts.append(part)
    return parts
