"""Family 'multi' — MultiEngine.tla replayed into real SQL + iteration engines.

Per emitted TLC state (source engine, contents, call history with explicit
preferred-engine options on the last call):
  C03  content after processing == TLC's reference rows (list when TLC says the
       list is determined, else bag when the bag is); columns equal; a valid
       request is not refused with ColumnError; transfer=True => result lives
       in the preferred engine (unless backtracking fully succeeded);
       require_preferred_engine => EngineError or no new operation outside it
  C15  transfers land in the requested engine; materializing a locked relation
       adds no materialization; Materialization objects of the old tree that
       occur in the new tree are the identical objects with identical upstream
  C14  engine consistency / well-formedness of the real tree (TLC TraceTree)
  C06  metadata truthful;  C20  refused requests with options raise the class
  C07  (partly) processing then executing gives the reference rows; hooks only
       called on evaluable, non-trivial sources
"""
from __future__ import annotations

import json
import os
import time
from collections import Counter

from . import build, project, tracecheck
from .core import trim, MachineryError, Part, merge_worker_outputs, parallel_replay
from .fam_iter import EXC, canon_tree, fingerprint, full_tree, judge_trees
from .fam_sql import bag, db, load_table
from .procs import make_processor
from .tlc import run_tlc

_st: dict = {}


def engines():
    if "engines" not in _st:
        from lsst.daf.relation import iteration, sql

        _st["engines"] = {"sql": sql.Engine(name="sql"), "it1": iteration.Engine(name="it1"), "it2": iteration.Engine(name="it2")}
    return _st["engines"]


def op_object(o: dict):
    return build.unary_op(o)


class World:
    def __init__(self, st: dict):
        from lsst.daf.relation import LeafRelation
        from lsst.daf.relation.iteration import RowSequence
        from lsst.daf.relation.sql import Payload

        self.st = st
        conn, tables, _ = db()
        self.conn = conn
        eng = engines()
        self.eng = eng
        load_table("T2", st["t2"])
        t2 = tables["T2"]
        self.t2 = eng["sql"].make_leaf(build.tags(("a", "c")), Payload(t2, columns_available={build.tag(c): t2.c[c] for c in ("a", "c")}),
                                       name="T2", min_rows=0, max_rows=None)
        n = len(st["l1"])
        if st["src"] == "sql":
            load_table("T1", st["l1"])
            t1 = tables["T1"]
            self.leaf = eng["sql"].make_leaf(build.tags(("a", "b")), Payload(t1, columns_available={build.tag(c): t1.c[c] for c in ("a", "b")}),
                                             name="L", min_rows=n, max_rows=n)
        else:
            self.leaf = LeafRelation(eng["it1"], build.tags(("a", "b")), RowSequence(build.rows(st["l1"])), name="L", min_rows=n, max_rows=n)

    def call(self, c: dict, rel):
        f = c["f"]
        if f == "un":
            o = c["opts"]
            kw = {}
            if o["pref"] != "none" or not o["backtrack"] or o["transfer"] or o["require"]:
                kw = dict(preferred_engine=None if o["pref"] == "none" else self.eng[o["pref"]], backtrack=o["backtrack"],
                          transfer=o["transfer"], require_preferred_engine=o["require"])
            return op_object(c["op"]).apply(rel, **kw)
        if f == "xfer":
            return rel.transferred_to(self.eng[c["dest"]])
        if f == "mat":
            return rel.materialized(c["name"])
        if f in ("join", "pjoinl"):
            p = c["p"]
            fx = c.get("fixed", "T2")
            fixed = (self.t2 if fx == "T2" else self.eng["sql"].make_join_identity_relation(name="I") if fx == "I"
                     else self.t2.without_duplicates().with_only_columns(build.tags(("a",))))
            pred = None if p == {"p": "lit", "v": True} else build.pred(p)
            before = None if pred is None else frozenset(pred.columns_required)
            if f == "join":
                res = rel.join(fixed, pred, backtrack=c["backtrack"], transfer=c["transfer"])
            else:
                from lsst.daf.relation import Predicate
                from lsst.daf.relation import _operations as ops
                res = ops.Join(pred if pred is not None else Predicate.literal(True)).partial(fixed, is_lhs=True).apply(
                    rel, backtrack=c["backtrack"], transfer=c["transfer"])
            if pred is not None and frozenset(pred.columns_required) != before:
                raise PredicateMutated(f"the join changed its predicate's columns_required from {sorted(map(str, before))} "
                                       f"to {sorted(map(str, pred.columns_required))}")
            return res
        if f == "chainself":
            return rel.chain(rel)
        raise MachineryError(f"unknown call {c}")


class PredicateMutated(Exception):
    """A factory call changed a predicate object handed to it (relations and expressions are immutable values)."""


def collect_nodes(r):
    from lsst.daf.relation import BinaryOperationRelation, MarkerRelation, UnaryOperationRelation

    out = []

    def walk(x):
        out.append(x)
        match x:
            case UnaryOperationRelation(target=target):
                walk(target)
            case BinaryOperationRelation(lhs=lhs, rhs=rhs):
                walk(lhs)
                walk(rhs)
            case MarkerRelation(target=target):
                walk(target)

    walk(r)
    return out


def ops_outside(r, engine) -> int:
    from lsst.daf.relation import BinaryOperationRelation, UnaryOperationRelation

    return sum(1 for n in collect_nodes(r)
               if isinstance(n, (UnaryOperationRelation, BinaryOperationRelation)) and n.engine is not engine)


def mats_of(r) -> dict:
    from lsst.daf.relation import Materialization

    return {n.name: n for n in collect_nodes(r) if isinstance(n, Materialization)}


def evaluate(w: World, rel, proc):
    """process() then execute in the final engine; rows as dicts name -> value."""
    from lsst.daf.relation import sql

    processed = proc.process(rel)
    if isinstance(processed.engine, sql.Engine):
        return project.rows(proc.evaluate(processed)), processed
    return project.rows(processed.engine.execute(processed)), processed


def brief(st):
    return {k: st[k] for k in ("src", "l1", "t2", "hist")}


def replay_state(st: dict, out: dict, want_event: bool, want_rejects: bool, want_rows: bool = True) -> None:
    case = brief(st)
    viol = out["violations"]
    cnt = out["counters"]
    exp = [r if isinstance(r, dict) else {} for r in st["rows"]]

    def V(props, what, **kw):
        viol.append({"properties": props, "family": "multi", "what": what, "case": case, **kw})

    w = World(st)
    rel = w.leaf
    before = rel
    last = None
    try:
        for c in st["hist"]:
            before = rel
            last = c
            rel = w.call(c, rel)
    except PredicateMutated as exc:
        V(["C09", "C13", "C20"], f"a factory call is not side-effect free: {exc}", call=last)
        return
    except Exception as exc:  # noqa: BLE001
        props = ["C03"] if type(exc).__name__ == "ColumnError" else ["C03", "C08"]
        V(props, f"a call the specification accepts raised {type(exc).__name__}: {str(exc)[:300]}", call=last)
        return
    try:
        hash(rel)
    except TypeError as exc:
        V(["C09"], f"a relation built by the factories is not hashable: {exc}", relation=str(rel))
    # ---- structural expectations
    m = project.meta(rel)
    mm = st["meta"]
    if sorted(mm["cols"]) != m["cols"]:
        V(["C03", "C06"], "columns differ from those of the operation applied at the root", observed=m["cols"], expected=sorted(mm["cols"]))
    if last is not None:
        if last["f"] == "xfer" and rel.engine.name != last["dest"]:
            V(["C15", "C14"], "transferred_to() returned a relation in another engine", observed=rel.engine.name)
        if last["f"] == "xfer" and before.engine.name == last["dest"] and rel is not before:
            V(["C14", "C15"], "transfer to the current engine did not return the relation itself")
        if last["f"] == "un" and _is_noop(last["op"], before) and rel is not before:
            V(["C14"], "a documented no-op call (with preferred-engine options) did not return the relation itself",
              call=last, returned=str(rel))
        if last["f"] == "mat":
            nb, na = len(mats_of(before)), len(mats_of(rel))
            locked_before = before.is_locked or (hasattr(before, "skip_to") and before.skip_to.is_locked and before.target is before.skip_to)
            if locked_before and na != nb:
                V(["C15"], "materializing a leaf / an already materialized relation added a materialization")
        old = mats_of(before)
        new = mats_of(rel)
        gone = sorted(set(old) - set(new))
        if gone:
            V(["C15"], f"a factory call made the locked materialization(s) {gone} of its input disappear from the result "
                       "(a simplification crossed a locked node)", call=last)
        for name, node in old.items():
            if name in new and new[name] is not node:
                V(["C15"], f"locked materialization {name!r} of the input tree reappears as a different object (rewritten upstream)",
                  before=str(node), after=str(new[name]))
        if last["f"] == "un":
            o = last["opts"]
            pref = None if o["pref"] == "none" else w.eng[o["pref"]]
            if pref is not None and not _is_noop(last["op"], before):
                if o["transfer"] and rel.engine is not pref:
                    # allowed only if backtracking fully succeeded: then no transfer is added
                    if not o["backtrack"] or ops_outside(rel, pref) > ops_outside(before, pref):
                        V(["C03"], "transfer=True but the result does not live in the preferred engine", observed=rel.engine.name, preferred=o["pref"])
                if o["require"] and not o["transfer"] and ops_outside(rel, pref) > ops_outside(before, pref):
                    V(["C03"], "require_preferred_engine=True but an operation was added outside the preferred engine",
                      before=ops_outside(before, pref), after=ops_outside(rel, pref))
    if m["eng"] != mm["eng"]:
        out["n_drift"] += 1
        if len(out["drift"]) < 3:
            out["drift"].append({"what": "result engine differs from the model", "case": case, "real": m["eng"], "model": mm["eng"]})
    real_tree = project.tree(rel)
    same_shape = canon_tree(project.strip_sel_target(real_tree)) == canon_tree(project.strip_sel_target(st["tree"]))
    if not same_shape:
        out["n_drift"] += 1
        if len(out["drift"]) < 3:
            out["drift"].append({"what": "tree shape differs from the model", "case": case,
                                 "real": canon_tree(project.strip_sel_target(real_tree)),
                                 "model": canon_tree(project.strip_sel_target(st["tree"]))})
    # ---- content through the real Processor (skipped when the check's property is not about content)
    if not want_rows:
        _rejects_and_event(st, out, w, rel, real_tree, same_shape, want_event, want_rejects, case, V, cnt)
        return
    proc = make_processor(w.conn, w.eng["sql"])
    fp_before = fingerprint(rel)
    try:
        got, processed = evaluate(w, rel, proc)
        known = False
        judged = same_shape or not _has_slice(real_tree)
        if not judged and st["bdet"]:
            # the tree differs from the model's and contains slices: the model's LIST verdict may lean on where the
            # model places operations, but a determined multiset must be returned by any correct tree
            cnt["bag_compared_shape_drift"] = cnt.get("bag_compared_shape_drift", 0) + 1
            if bag(got) != bag(exp) and not _kf2(st, real_tree):
                V(["C03", "C07"], "rows after processing differ (as a multiset) from applying the operations at the root",
                  observed=got, expected=exp)
        elif not judged:
            cnt["rows_not_judged_shape_drift"] = cnt.get("rows_not_judged_shape_drift", 0) + 1
        elif st["ldet"]:
            cnt["list_compared"] = cnt.get("list_compared", 0) + 1
            if got != exp:
                known = _kf2(st, real_tree)
                if not known:
                    V(["C03", "C07"], "rows after processing differ (as a list) from applying the operations at the root",
                      observed=got, expected=exp)
        elif st["bdet"]:
            cnt["bag_compared"] = cnt.get("bag_compared", 0) + 1
            if bag(got) != bag(exp):
                known = _kf2(st, real_tree)
                if not known:
                    V(["C03", "C07"], "rows after processing differ (as a multiset) from applying the operations at the root",
                      observed=got, expected=exp)
        else:
            cnt["undetermined"] = cnt.get("undetermined", 0) + 1
        if known:
            out["known"]["F2"] = out["known"].get("F2", 0) + 1
        if processed.engine is not rel.engine or set(processed.columns) != set(rel.columns):
            V(["C07"], "processed tree has a different engine or columns")
        for e in proc.log:
            if e["max_rows"] == 0 or e["join_identity"]:
                V(["C07"], "a Processor hook was invoked for a relation statically known to be empty / a join identity", hook=e)
    except Exception as exc:  # noqa: BLE001
        bad = [e for e in proc.log if e["error"]]
        if type(exc).__name__ == "EngineError" and "Cannot persist materialization" in str(exc) and sql_mat_after_xfer(real_tree):
            # open finding F8: matcher (a SQL materialization downstream of a transfer) + signature (this EngineError)
            out["known"]["F8"] = out["known"].get("F8", 0) + 1
        else:
            V(["C07", "C03", "C08"], f"processing/executing the tree raised {type(exc).__name__}: {str(exc)[:300]}", hook_failures=bad[:2])
    finally:
        proc.cleanup()
    if fingerprint(rel)[:5] != fp_before[:5]:
        V(["C07", "C09"], "process() changed the structure/metadata of the tree passed in")
    # ---- the same final call issued on the PROCESSED base tree (payloaded transfers / materializations):
    #      rebuilding a transfer upstream of which an operation was inserted must not keep a stale payload
    ptree = st.get("ptree") or {"k": "none"}
    if st["final"] and last is not None and len(st["hist"]) >= 2 and (
            ptree.get("k") != "none" or (last["f"] == "un" and (st["ldet"] or st["bdet"]) and not st["kf2"])):
        proc2 = make_processor(w.conn, w.eng["sql"])
        try:
            w2 = World(st)
            base = w2.leaf
            for c in st["hist"][:-1]:
                base = w2.call(c, base)
            try:
                pbase = proc2.process(base)
                rel2 = w2.call(last, pbase)
                if ptree.get("k") != "none":
                    # structure AND payload flags of the result vs MultiEngine!PRes (RA_Proc + RA_Engine on a payloaded tree)
                    real_p = canon_tree(project.strip_sel_target(project.tree(rel2)), keep_p=True)
                    model_p = canon_tree(project.strip_sel_target(ptree), keep_p=True)
                    cnt["processed_base_trees_compared"] = cnt.get("processed_base_trees_compared", 0) + 1
                    if real_p != model_p:
                        out["n_drift"] += 1
                        if len(out["drift"]) < 3:
                            out["drift"].append({"what": "the final call issued on the processed base tree gives a tree (with payload flags) "
                                                         "different from the model's", "case": case, "real": real_p, "model": model_p})
                got2, _ = evaluate(w2, rel2, proc2)
                cnt["processed_base_variants"] = cnt.get("processed_base_variants", 0) + 1
                bad2 = False
                if (st["ldet"] or st["bdet"]) and not st["kf2"]:
                    bad2 = (got2 != exp) if st["ldet"] else (bag(got2) != bag(exp))
                if bad2 and not _kf2(st, project.tree(rel2)):
                    V(["C03", "C07", "C09"], "the final call issued on the already PROCESSED base tree gives different rows "
                                             "(a rebuilt marker kept a stale payload?)", observed=got2, expected=exp)
            except Exception as exc:  # noqa: BLE001
                if not (type(exc).__name__ == "EngineError" and ("Cannot persist materialization" in str(exc))
                        and sql_mat_after_xfer(project.tree(base))) and type(exc).__name__ != "EngineError":
                    V(["C03", "C07"], f"the final call on the processed base tree raised {type(exc).__name__}: {str(exc)[:200]}")
        finally:
            proc2.cleanup()
    _rejects_and_event(st, out, w, rel, real_tree, same_shape, want_event, want_rejects, case, V, cnt)


def _last_is_join(st) -> bool:
    return bool(st["final"] and st["hist"] and st["hist"][-1]["f"] in ("join", "pjoinl"))


def _rejects_and_event(st, out, w, rel, real_tree, same_shape, want_event, want_rejects, case, V, cnt):
    # ---- refused requests
    for rj in (st["rejects"] if want_rejects else ()):
        c = rj["call"]
        fp = fingerprint(rel)
        expected = {EXC[rj["err"]]}
        try:
            res = w.call(c, rel)
            V(["C20", "C03"] + (["C14"] if rj["err"] == "EngineError" else []),
              "a request the specification refuses returned a relation", request=c, expected=sorted(expected), returned=str(res))
        except Exception as exc:  # noqa: BLE001
            if type(exc).__name__ not in expected:
                props = ["C20"]
                if type(exc).__name__ == "ColumnError" or rj["err"] == "EngineError":
                    props.append("C03")
                V(props, f"a refused request raised {type(exc).__name__} instead of {sorted(expected)}", request=c, message=str(exc)[:200])
        if fingerprint(rel) != fp:
            V(["C20", "C09"], "a rejected request changed an existing relation", request=c)
        cnt["rejects_checked"] = cnt.get("rejects_checked", 0) + 1
    if want_event or not same_shape:
        out["events"].append({"tree": full_tree(rel), "env": {"L": st["l1"], "T2": st["t2"]},
                              "rows": st["rows"], "bag": not st["ldet"],
                              # after a final join only the multiset is promised (MultiEngine!ListPromised)
                              "checks": ["wf", "meta"] + ([] if st["kf2"] else ["denbag"] if _last_is_join(st) else ["denbag", "denlist"]),
                              "case": case})


def sql_mat_after_xfer(t, under_sql_mat=False) -> bool:
    """Matcher of open finding F8 on a projected real tree: a Materialization that
    lives in a SQL engine (wraps a Select marker) whose upstream tree is REBUILT
    by process(), i.e. contains a Transfer or a chain with a statically empty
    branch (which process() prunes)."""
    if not isinstance(t, dict):
        return False
    k = t.get("k")
    if k == "xfer":
        return under_sql_mat or sql_mat_after_xfer(t["t"], False)
    if k == "mat":
        is_sql = t["t"].get("k") == "sel"
        return sql_mat_after_xfer(t["t"], under_sql_mat or is_sql)
    if k == "sel":
        return sql_mat_after_xfer(t["skip"], under_sql_mat)
    if k == "un":
        return sql_mat_after_xfer(t["t"], under_sql_mat)
    if k == "bin":
        if under_sql_mat and t["op"].get("o") == "chain" and (_is_empty_leaf_sel(t["l"]) or _is_empty_leaf_sel(t["r"])):
            return True
        return sql_mat_after_xfer(t["l"], under_sql_mat) or sql_mat_after_xfer(t["r"], under_sql_mat)
    return False


def _is_empty_leaf_sel(t) -> bool:
    """A (select-wrapped) statically empty leaf: the harness's doomed leaf is named Z."""
    while isinstance(t, dict) and t.get("k") == "sel":
        t = t["skip"]
    return isinstance(t, dict) and t.get("k") == "leaf" and t.get("id") == "Z"


def _is_noop(o: dict, rel) -> bool:
    k = o["o"]
    if k == "proj":
        return set(o["cols"]) == {t.qualified_name for t in rel.columns}
    if k == "sort":
        return not o["terms"]
    if k == "slice":
        return o["a"] == 0 and o["b"] == -1
    if k == "sel":
        return o["p"] == {"p": "lit", "v": True}
    return False


def _has_slice(t) -> bool:
    from .fam_sql import _has_slice as hs

    return hs(t)


def _kf2(st: dict, real_tree: dict) -> bool:
    """Open finding F2: matcher (from TLC) + mechanism signature on the REAL tree:
    a projection sits upstream of a deduplication on the spine."""
    if not st["kf2"]:
        return False

    def spine(t, seen_dedup):
        k = t.get("k")
        if k == "un":
            if t["op"]["o"] == "dedup":
                return spine(t["t"], True)
            if t["op"]["o"] == "proj" and seen_dedup:
                return True
            return spine(t["t"], seen_dedup)
        if k == "xfer":
            return spine(t["t"], seen_dedup)
        if k == "sel":
            if seen_dedup and t["proj"]["some"]:
                return True
            return spine(t["skip"], seen_dedup or t["dedup"])
        return False

    return spine(real_tree, False)


def worker(lines, ctx):
    out = {"n": 0, "nontrivial": 0, "violations": [], "counters": {}, "samples": [], "events": [], "n_drift": 0, "drift": [], "known": {}}
    every = ctx.get("event_every", 1)
    for i, ln in enumerate(lines):
        st = json.loads(ln)
        out["n"] += 1
        if st["fired"]:
            out["nontrivial"] += 1
        replay_state(st, out, want_event=(i % every == 0), want_rejects=(i % ctx.get("rejects_every", 1) == 0),
                     want_rows=ctx.get("want_rows", True))
        if len(out["violations"]) > 60:
            out["violations"] = trim(out["violations"])
        if len(out["samples"]) < 1 and st["fired"]:
            out["samples"].append({"src": st["src"], "l1": st["l1"], "hist": st["hist"], "expected_rows": st["rows"]})
    return out


CLAUSE_PROPS = {"wf": ["C14", "C03"], "den": ["C03", "C15"], "denbag": ["C03", "C15"], "denlist": ["C03", "C15"], "meta": ["C06"], "coh": ["C17"]}
CONFIGS = {
    "quick": [("MultiLite.cfg", 3), ("MultiQuick.cfg", 4)],
    # (MultiDeep.cfg - three base calls - outgrew the time budget when the menus grew: >3.4 million states)
    "thorough": [("MultiQuick.cfg", 1), ("MultiFull.cfg", 6)],
}


def run(tier: str, seed: int) -> list[Part]:
    parts = []
    plan = CONFIGS[tier]
    if tier == "quick" and os.environ.get("VERIF_FOCUS", "") not in ("", "C03", "C15", "C07", "C09"):
        # for the properties this family serves only in second place a shallower configuration is replayed
        plan = [("MultiLite.cfg", 3)]
    if tier == "quick" and os.environ.get("VERIF_FOCUS", "") == "C07":
        plan = [("MultiLite.cfg", 3)]
    for cfg, every in plan:
        t0 = time.time()
        res = run_tlc("MC_Multi.tla", cfg, heap="6g", timeout=7200)
        if res.violated:
            raise MachineryError(f"model-level violation of {res.violated} in {cfg}:\n{res.error_text}")
        part = Part(name=f"multiengine:{cfg}", cfg=cfg, states=res.distinct, transitions=res.generated)
        t1 = time.time()
        focus = os.environ.get("VERIF_FOCUS", "")
        ctx = {"event_every": every, "rejects_every": 3 if tier == "quick" else 2,
               # processing + executing every state is what C03 / C07 need; the structural properties do not
               "want_rows": not (tier == "quick" and focus in ("C15", "C14", "C06", "C20", "C09"))}
        if tier == "quick" and focus in ("C15", "C09"):
            ctx["rejects_every"] = 10**9
        outs = parallel_replay(worker, res.raw_lines(), ctx=ctx, chunk=150)
        merge_worker_outputs(part, outs)
        t2 = time.time()
        events = [ev for o in outs for ev in o.get("events", [])]
        judge_trees(events, part, "multi", CLAUSE_PROPS)
        part.counters["replay_wall_s"] = round(t2 - t1, 1)
        part.counters["trace_wall_s"] = round(time.time() - t2, 1)
        part.counters["tlc_wall_s"] = res.wall_s
        part.wall_s = time.time() - t0
        parts.append(part)
    # companion: the excluded class (open finding F2) still violates in the model
    t0 = time.time()
    kf17 = run_tlc("MC_Multi.tla", "MultiKF17.cfg", expect_violation=True, heap="3g")
    if kf17.violated != "F17Gone":
        raise MachineryError(f"companion MultiKF17 (backtrack_unary as at the pinned commit) no longer violates F17Gone (got {kf17.violated})")
    p17 = Part(name="multiengine:F17-companion", cfg="MultiKF17.cfg", states=max(kf17.distinct, 1), transitions=max(kf17.generated, 1))
    p17.notes.append("with the pinned-commit rule (a failed backtrack rebuilds a payloaded transfer) TLC re-derives finding F17 "
                     "(ProcessedBaseSound violated)")
    parts.append(p17)
    kf24 = run_tlc("MC_Multi.tla", "MultiKF24.cfg", expect_violation=True, heap="3g")
    if kf24.violated != "WF":
        raise MachineryError(f"companion MultiKF24 (sql append_binary as at the pinned commit) no longer violates WF (got {kf24.violated})")
    p24 = Part(name="multiengine:F24-companion", cfg="MultiKF24.cfg", states=max(kf24.distinct, 1), transitions=max(kf24.generated, 1))
    p24.notes.append("with the pinned-commit rule TLC re-derives finding F24: joining the SQL join identity with an iteration-engine relation "
                     "returns that relation wrapped in a sql.Select marker (not engine-consistent)")
    parts.append(p24)
    kf21 = run_tlc("MC_Multi.tla", "MultiKF21.cfg", expect_violation=True, heap="3g")
    if kf21.violated != "NoPlacementColumnError":
        raise MachineryError(f"companion MultiKF21 (Calculation.commute as at the pinned commit) no longer violates NoPlacementColumnError (got {kf21.violated})")
    p21 = Part(name="multiengine:F21-companion", cfg="MultiKF21.cfg", states=max(kf21.distinct, 1), transitions=max(kf21.generated, 1))
    p21.notes.append("with the pinned-commit rule TLC re-derives finding F21: a calculation whose tag an earlier projection dropped is refused "
                     "with ColumnError when a preferred engine is given")
    parts.append(p21)
    kf20 = run_tlc("MC_Multi.tla", "MultiKF20.cfg", expect_violation=True, heap="3g")
    if kf20.violated != "ContentKept":
        raise MachineryError(f"companion MultiKF20 (PartialJoin.commute as at the pinned commit) no longer violates ContentKept (got {kf20.violated})")
    p20 = Part(name="multiengine:F20-companion", cfg="MultiKF20.cfg", states=max(kf20.distinct, 1), transitions=max(kf20.generated, 1))
    p20.notes.append("with the pinned-commit rule (a join moves below a projection that hides a column the fixed operand also has) TLC re-derives "
                     "finding F20: the selection in between filters on the fixed operand's column")
    parts.append(p20)
    kf18 = run_tlc("MC_Multi.tla", "MultiKF18.cfg", expect_violation=True, heap="3g")
    if kf18.violated not in ("ContentKept", "ColumnsKept"):
        raise MachineryError(f"companion MultiKF18 (backtrack_unary as at the pinned commit) no longer violates ContentKept/ColumnsKept (got {kf18.violated})")
    p18 = Part(name="multiengine:F18-companion", cfg="MultiKF18.cfg", states=max(kf18.distinct, 1), transitions=max(kf18.generated, 1))
    p18.notes.append("with the pinned-commit rule (the commuted operation replaces the current one only when the upstream changed) TLC re-derives "
                     "finding F18: a projection that is a no-op upstream of a calculation is lost")
    parts.append(p18)
    kf = run_tlc("MC_Multi.tla", "MultiKF2.cfg", expect_violation=True, heap="3g")
    if kf.violated != "KF2Gone":
        raise MachineryError(f"companion MultiKF2 no longer violates KF2Gone (got {kf.violated})")
    p = Part(name="multiengine:F2-companion", cfg="MultiKF2.cfg", states=max(kf.distinct, 1), transitions=max(kf.generated, 1))
    p.notes.append("TLC counterexample re-derives F2 at system level: a projection backtracked through a deduplication changes content")
    p.wall_s = time.time() - t0
    parts.append(p)
    return parts
