"""Family 'pairs' — properties C04 (commutation reports are sound) and C05
(merging/eliding adjacent operations preserves semantics and never rejects).

TLC enumerates every ordered pair (existing, new) of the menus of OpPairs.tla
and proves the laws on the MODEL's rules for every target.  For every emitted
state the REAL `new.commute(current)` / the REAL two-step application is
performed and the real answer is handed back to TLC (TracePairs.tla), which
judges it with the same laws over every target.  Equality with the model's own
answer is only reported as drift.
"""
from __future__ import annotations

import json
import time

from . import build, project, tracecheck
from .core import MachineryError, Part, merge_worker_outputs, parallel_replay
from .tlc import run_tlc

_state: dict = {}


def _leaf(tc):
    from lsst.daf.relation import LeafRelation, iteration

    eng = _state.setdefault("eng", iteration.Engine(name="it1"))
    key = ("leaf", tuple(sorted(tc)))
    if key not in _state:
        _state[key] = LeafRelation(eng, build.tags(tc), iteration.RowSequence([]), name="L", min_rows=0, max_rows=None)
    return _state[key]


def _canon(x):
    """Canonical JSON for drift comparison (sets arrive as sorted lists)."""
    if isinstance(x, dict) and x.get("o") == "pjoin":
        # model form (common, res) and real form (min, max) of a partial join
        common = x["common"] if "common" in x else x["min"]
        res = x["res"] if "res" in x else (x["hasmax"] and sorted(x["max"]) == sorted(x["min"]))
        return {"o": "pjoin", "fixed": json.dumps(x["fixed"], sort_keys=True), "p": _canon(x["p"]), "common": sorted(common), "res": bool(res), "lhs": bool(x["lhs"])}
    if isinstance(x, dict):
        return {k: (sorted(v) if k in ("cols", "common") and isinstance(v, list) else _canon(v)) for k, v in x.items()}
    if isinstance(x, list):
        return [_canon(v) for v in x]
    return x


def _with_fixed_meta(o: dict, model_new: dict) -> dict:
    """A projected real partial join names its fixed operand by leaf id only; TLC needs the leaf's columns."""
    if o.get("o") == "pjoin" and model_new.get("o") == "pjoin":
        o = dict(o, fixed=model_new["fixed"])     # observe() has checked that the fixed operand is the same object
    return o


def observe(st: dict) -> dict:
    from lsst.daf.relation import UnaryOperationRelation

    leaf = _leaf(st["tc"])
    ev = {"kind": "commute" if st["phase"] == "commuted" else "merge", "mode": st["mode"],
          "cur": st["cur"], "new": st["new"], "err": "none"}
    cur = build.unary_op(st["cur"])
    new = build.unary_op(st["new"])
    if st["phase"] == "commuted":
        cur_rel = UnaryOperationRelation(operation=cur, target=leaf, columns=cur.applied_columns(leaf))
        try:
            k = new.commute(cur_rel)
            if st["new"].get("o") == "pjoin" and k.first is not None and getattr(k.first, "fixed", None) is not new.fixed:
                raise AssertionError("the reported first operation is a partial join with a DIFFERENT fixed operand")
            ev["first"] = {"o": "none"} if k.first is None else _with_fixed_meta(project.unary_op(k.first), st["new"])
            ev["second"] = _with_fixed_meta(project.unary_op(k.second), st["new"])
            ev["done"] = bool(k.done)
        except Exception as exc:  # noqa: BLE001
            ev["err"] = type(exc).__name__
            ev["first"] = {"o": "none"}
            ev["second"] = {"o": "none"}
            ev["done"] = False
            ev["msg"] = str(exc)[:200]
    else:
        try:
            r1 = cur.apply(leaf)
            r2 = new.apply(r1)
            ev["res"] = project.tree(r2)
        except Exception as exc:  # noqa: BLE001
            ev["err"] = type(exc).__name__
            ev["res"] = {"k": "leaf", "id": "L"}
            ev["msg"] = str(exc)[:200]
    return ev


def worker(lines, ctx):
    out = {"n": 0, "nontrivial": 0, "violations": [], "counters": {}, "samples": [], "events": [], "n_drift": 0, "drift": []}
    for ln in lines:
        st = json.loads(ln)
        out["n"] += 1
        if st["fired"]:
            out["nontrivial"] += 1
        ev = observe(st)
        if st["phase"] == "commuted":
            if ev["err"] != "none":
                out["violations"].append({"property": "C04", "family": "pairs", "what": f"commute() raised {ev['err']}: {ev.get('msg')}",
                                          "case": {k: st[k] for k in ("mode", "tc", "cur", "new", "phase")}})
            else:
                real = _canon({"first": ev["first"], "second": ev["second"], "done": ev["done"]})
                model = _canon(st["res"])
                if real != model:
                    out["n_drift"] += 1
                    out["drift"].append({"what": "commutator differs from model", "cur": st["cur"], "new": st["new"], "real": real, "model": model})
        else:
            if ev["err"] == "none":
                real = _canon(_strip_leaf(ev["res"]))
                model = _canon(_strip_leaf(st["res"]))
                if real != model:
                    out["n_drift"] += 1
                    out["drift"].append({"what": "merged tree differs from model", "cur": st["cur"], "new": st["new"], "real": real, "model": model})
        ev.pop("msg", None)
        ev["tc"] = st["tc"]
        out["events"].append(ev)
        if len(out["samples"]) < 2 and st["fired"]:
            out["samples"].append({"phase": st["phase"], "cur": st["cur"], "new": st["new"], "model_result": st["res"]})
    return out


def _strip_leaf(t):
    if isinstance(t, dict):
        if t.get("k") == "leaf":
            return {"k": "leaf", "id": t["id"]}
        return {k: _strip_leaf(v) for k, v in t.items()}
    if isinstance(t, list):
        return [_strip_leaf(v) for v in t]
    return t


def _tlc_judge(events, part: Part):
    verdicts = tracecheck.validate("TracePairs.tla", events, batch=1500)
    part.traces += len(events)
    for v in verdicts:
        ev = v["event"]
        case = {"phase": "commuted" if ev["kind"] == "commute" else "merged", "mode": ev["mode"], "tc": ev["tc"],
                "cur": ev["cur"], "new": ev["new"]}
        if v["tag"] == "TK":
            part.known[v["kf"]] += 1
            continue
        if ev["kind"] == "commute":
            part.violations.append({"property": "C04", "family": "pairs", "case": case,
                                    "what": "TLC (TracePairs) refutes the real commutator: reordered sequence differs from existing-then-new on some target, or an operation is ill-formed where it would be applied, or a refusal did not hand back the existing operation",
                                    "real_answer": {k: ev[k] for k in ("first", "second", "done")}})
        else:
            part.violations.append({"property": "C05", "family": "pairs", "case": case,
                                    "what": ("applying two individually valid operations raised " + ev["err"]) if ev["err"] != "none"
                                    else "TLC (TracePairs) refutes the real merged tree: its denotation differs from the two operations applied in sequence on some target",
                                    "real_answer": ev.get("res")})


COMPANIONS = [
    # cfg, invariant expected to be violated, finding, note
    ("PairsKF2.cfg", "KF2StillViolates", "F2", "Projection.commute past Deduplication (open)"),
    ("PairsKF6.cfg", "MergeSound", "F6", "Slice.then without clamping raises ValueError (fixed in the code)"),
    ("PairsKF10.cfg", "CommuteSound", "F10", "Sort.commute past Sort (fixed in the code)"),
    ("PairsKF20.cfg", "CommuteSound", "F20", "PartialJoin.commute past a Projection that hides a column the fixed operand also has (fixed in the code)"),
    ("PairsKF21.cfg", "CommuteSound", "F21", "Calculation.commute past a Projection that dropped a column with the same tag (fixed in the code)"),
    ("PairsKF26.cfg", "CommuteSound", "F26", "PartialJoin.commute with unresolved common columns moves the join upstream of a Projection that dropped a key column of the fixed operand (fixed in the code)"),
    ("PairsKF25.cfg", "CommuteSound", "F25", "Deduplication.commute past an order-dependent user-defined Reordering (fixed in the code)"),
]


def run(tier: str, seed: int) -> list[Part]:
    parts = []
    for cfg in ["PairsGeneral.cfg", "PairsSlices.cfg", "PairsSorts.cfg", "PairsJoins.cfg", "PairsCustom.cfg"] + (["PairsGeneral2.cfg"] if tier == "thorough" else []):
        t0 = time.time()
        res = run_tlc("MC_Pairs.tla", cfg)
        if res.violated:
            raise MachineryError(f"model-level violation of {res.violated} in {cfg}:\n{res.error_text}")
        part = Part(name=f"oppairs:{cfg}", cfg=cfg, states=res.distinct, transitions=res.generated)
        outs = parallel_replay(worker, res.raw_lines(), chunk=200)
        merge_worker_outputs(part, outs)
        events = [ev for o in outs for ev in o.get("events", [])]
        _tlc_judge(events, part)
        part.wall_s = time.time() - t0
        parts.append(part)
    # the binding binds: corrupted real answers must be rejected by TLC
    st = Part(name="tracepairs:corrupt-one-field", cfg="TracePairs", states=1, transitions=1, exhaustive=False)
    bad = [
        ("a slice reported to commute past a sort",
         {"kind": "commute", "mode": "general", "tc": ["a", "b"], "err": "none",
          "cur": {"o": "sort", "terms": [{"e": {"x": "ref", "c": "a"}, "asc": True}]}, "new": {"o": "slice", "a": 0, "b": 1},
          "first": {"o": "slice", "a": 0, "b": 1}, "second": {"o": "sort", "terms": [{"e": {"x": "ref", "c": "a"}, "asc": True}]}, "done": True}),
        ("a refusal that does not hand back the existing operation",
         {"kind": "commute", "mode": "general", "tc": ["a", "b"], "err": "none",
          "cur": {"o": "slice", "a": 0, "b": 2}, "new": {"o": "dedup"},
          "first": {"o": "none"}, "second": {"o": "slice", "a": 0, "b": 1}, "done": False}),
        ("two slices merged with a wrong stop",
         {"kind": "merge", "mode": "slices", "tc": ["a"], "err": "none",
          "cur": {"o": "slice", "a": 1, "b": 3}, "new": {"o": "slice", "a": 0, "b": 5},
          "res": {"k": "un", "op": {"o": "slice", "a": 1, "b": 6}, "t": {"k": "leaf", "id": "L"}}}),
        ("two sorts merged in the wrong priority",
         {"kind": "merge", "mode": "sorts", "tc": ["a", "b"], "err": "none",
          "cur": {"o": "sort", "terms": [{"e": {"x": "ref", "c": "a"}, "asc": True}]},
          "new": {"o": "sort", "terms": [{"e": {"x": "ref", "c": "b"}, "asc": True}]},
          "res": {"k": "un", "op": {"o": "sort", "terms": [{"e": {"x": "ref", "c": "a"}, "asc": True}, {"e": {"x": "ref", "c": "b"}, "asc": True}]},
                  "t": {"k": "leaf", "id": "L"}}}),
    ]
    verdicts = tracecheck.validate("TracePairs.tla", [dict(e) for _, e in bad], batch=100)
    rejected = {v["id"] for v in verdicts if v["tag"] == "TV"}
    for i, (kind, _) in enumerate(bad):
        if i not in rejected:
            raise MachineryError(f"binding self-test: TLC accepted a corrupted answer ({kind})")
    st.traces = len(bad)
    st.nontrivial = len(bad)
    st.notes.append("corruptions rejected: " + ", ".join(k for k, _ in bad))
    st.samples.append({"corruption": bad[0][0], "event": bad[0][1]})
    parts.append(st)
    for cfg, inv, fid, note in COMPANIONS:
        t0 = time.time()
        kf = run_tlc("MC_Pairs.tla", cfg, expect_violation=True)
        if kf.violated != inv:
            raise MachineryError(f"companion config {cfg} no longer violates {inv} (got {kf.violated})")
        p = Part(name=f"oppairs:{fid}-companion", cfg=cfg, states=max(kf.distinct, 1), transitions=max(kf.generated, 1))
        p.notes.append(f"TLC counterexample re-derives {fid}: {note}")
        p.wall_s = time.time() - t0
        parts.append(p)
    return parts
