"""Family 'names' — Names.tla schedules replayed into the real
GenericConcreteEngine.get_relation_name under real threads (property C19).

Every TLC behaviour is an interleaving of the three counter accesses
(read for the name, read and write of `+= 1`) of 2-3 threads on 1-2 engines.
An Engine subclass intercepts reads/writes of `relation_name_counter`; each
thread blocks before every access and a scheduler releases them in the order
of the TLC behaviour.  Requests are issued directly, through LeafRelation
construction and through materialized().  After each schedule: all names
pairwise distinct and correctly prefixed (the property); the counters equal
the model's (conformance; reported as drift).
If the code no longer makes the modelled accesses the driver falls back to
free-running threads and checks only the property.
"""
from __future__ import annotations

import json
import threading
import time

from . import build
from .core import trim, MachineryError, Part, merge_worker_outputs, parallel_replay
from .tlc import run_tlc

_local = threading.local()
LONG_PREFIX = "a_rather_long_but_perfectly_legal_prefix_for_generated_relation_names_xyz"


class Scheduler:
    def __init__(self, n_threads: int):
        self.arrived = {t: threading.Event() for t in range(1, n_threads + 1)}
        self.go = {t: threading.Event() for t in range(1, n_threads + 1)}
        self.finished = {t: threading.Event() for t in range(1, n_threads + 1)}
        self.accesses = {t: [] for t in range(1, n_threads + 1)}
        self.active = True
        self.skipped = 0

    def gate(self, kind: str):
        tid = getattr(_local, "tid", None)
        if tid is None or not self.active:
            return
        self.accesses[tid].append(kind)
        self.arrived[tid].set()
        if not self.go[tid].wait(timeout=5):
            self.active = False
        self.go[tid].clear()

    def step(self, tid: int) -> bool:
        """Release thread tid for one access; wait until it blocks again or finishes.
        A thread that has already finished (the code makes fewer accesses than the
        model's three per request) has nothing left to schedule: the step is skipped."""
        t0 = time.time()
        while not self.arrived[tid].is_set():
            if self.finished[tid].is_set():
                self.skipped += 1
                return True
            if time.time() - t0 > 5:
                return False
            time.sleep(0)
        self.arrived[tid].clear()
        self.go[tid].set()
        t0 = time.time()
        while time.time() - t0 < 5:
            if self.arrived[tid].is_set() or self.finished[tid].is_set():
                return True
            time.sleep(0)
        return False


def make_engine_class(sched_ref):
    from lsst.daf.relation import iteration

    class TracedEngine(iteration.Engine):
        def __getattribute__(self, name):
            if name == "relation_name_counter":
                s = sched_ref[0]
                if s is not None:
                    s.gate("R")
            return object.__getattribute__(self, name)

        def __setattr__(self, name, value):
            if name == "relation_name_counter":
                s = sched_ref[0]
                if s is not None:
                    s.gate("W")
            object.__setattr__(self, name, value)

    return TracedEngine


_cls = {}


def run_schedule(st: dict, out: dict) -> None:
    from lsst.daf.relation import LeafRelation
    from lsst.daf.relation.iteration import RowSequence

    sched_ref = _cls.setdefault("ref", [None])
    Engine = _cls.get("cls") or _cls.setdefault("cls", make_engine_class(sched_ref))
    engine_of = {int(k): v for k, v in st["engineOf"].items()} if isinstance(st["engineOf"], dict) else {i + 1: v for i, v in enumerate(st["engineOf"])}
    threads_ids = sorted(engine_of)
    # all engines carry the SAME name (the default one): uniqueness across engines may not lean on engine names
    engines = {e: Engine(name="iteration") for e in set(engine_of.values())}
    requests = st["requests"]
    names: dict = {t: [] for t in threads_ids}
    errors: list = []
    sch = Scheduler(len(threads_ids))
    cols = build.tags(("a",))

    def body(tid):
        _local.tid = tid
        eng = engines[engine_of[tid]]
        try:
            for _ in range(requests):
                mode = tid % 3
                if mode == 1:
                    # every other request uses a very long prefix (uniqueness and the prefix must survive it)
                    prefix = "leaf" if len(names[tid]) % 2 == 0 else LONG_PREFIX
                    names[tid].append((prefix, eng.get_relation_name(prefix)))
                elif mode == 2:
                    leaf = LeafRelation(eng, cols, RowSequence([]), min_rows=0, max_rows=0)
                    names[tid].append(("leaf", leaf.name))
                else:
                    base = LeafRelation(eng, cols, RowSequence([{build.tag("a"): 1}]), name=f"base{tid}", min_rows=1, max_rows=1)
                    m = base[0:1].materialized(name_prefix="leaf")
                    names[tid].append(("leaf", m.name))
        except Exception as exc:  # noqa: BLE001
            errors.append(f"{type(exc).__name__}: {exc}")
        finally:
            _local.tid = None
            sch.finished[tid].set()

    sched_ref[0] = sch
    ths = [threading.Thread(target=body, args=(t,), daemon=True) for t in threads_ids]
    for th in ths:
        th.start()
    followed = True
    for tid in st["sched"]:
        if not sch.step(tid):
            followed = False
            break
    sch.active = False
    for t in threads_ids:
        sch.go[t].set()
    for th in ths:
        th.join(timeout=10)
    sched_ref[0] = None
    case = {"sched": st["sched"], "engineOf": st["engineOf"], "requests": requests}
    if errors:
        out["violations"].append({"properties": ["C19"], "family": "names", "what": f"a name request raised {errors[0]}", "case": case})
        return
    if not followed:
        out["counters"]["schedule_not_followed"] = out["counters"].get("schedule_not_followed", 0) + 1
    allnames = [(p, n) for t in threads_ids for (p, n) in names[t]]
    flat = [n for _, n in allnames]
    if len(set(flat)) != len(flat):
        dup = sorted({n for n in flat if flat.count(n) > 1})
        out["violations"].append({"properties": ["C19"], "family": "names", "case": case,
                                  "what": "two name requests were handed the same name", "duplicates": dup[:3],
                                  "followed_schedule": followed})
    for p, n in allnames:
        if not n.startswith(p):
            out["violations"].append({"properties": ["C19"], "family": "names", "case": case,
                                      "what": f"name {n!r} does not begin with the requested prefix {p!r}"})
    if len(flat) != len(threads_ids) * requests:
        out["violations"].append({"properties": ["C19"], "family": "names", "case": case, "what": "a request returned no name"})
    if followed:
        model = {int(k): v for k, v in st["counter"].items()} if isinstance(st["counter"], dict) else {i + 1: v for i, v in enumerate(st["counter"])}
        real = {e: object.__getattribute__(engines[e], "relation_name_counter") for e in engines}
        if real != model:
            out["n_drift"] += 1
            if len(out["drift"]) < 3:
                out["drift"].append({"what": "counter values differ from the model after the schedule", "real": real, "model": model, "case": case})
        pattern_ok = sch.skipped == 0 and all(sch.accesses[t] == ["R", "R", "W"] * requests for t in threads_ids)
        if not pattern_ok:
            out["counters"]["access_pattern_changed"] = out["counters"].get("access_pattern_changed", 0) + 1


def worker(lines, ctx):
    out = {"n": 0, "nontrivial": 0, "violations": [], "counters": {}, "samples": [], "events": [], "n_drift": 0, "drift": [], "known": {}}
    for ln in lines:
        st = json.loads(ln)
        out["n"] += 1
        if st["lost"]:
            out["nontrivial"] += 1      # a schedule in which a counter update is lost
        run_schedule(st, out)
        if len(out["violations"]) > 60:
            out["violations"] = trim(out["violations"])
        if len(out["samples"]) < 1 and st["lost"]:
            out["samples"].append({"sched": st["sched"], "counter": st["counter"], "engineOf": st["engineOf"]})
    return out


def free_run(part: Part, n_rounds: int) -> None:
    """Unscheduled threads hammering two engines: only the property is checked."""
    import sys

    from lsst.daf.relation import iteration

    old = sys.getswitchinterval()
    sys.setswitchinterval(1e-6)
    try:
        for _ in range(n_rounds):
            engs = [iteration.Engine(), iteration.Engine()]      # two engines with the same (default) name
            got: list = []
            lock = threading.Lock()

            def body(e):
                mine = [e.get_relation_name("leaf") for _ in range(200)] + [e.get_relation_name(LONG_PREFIX) for _ in range(50)]
                with lock:
                    got.extend(mine)

            ths = [threading.Thread(target=body, args=(engs[i % 2],)) for i in range(6)]
            for t in ths:
                t.start()
            for t in ths:
                t.join()
            part.counters["free_run_names"] = part.counters.get("free_run_names", 0) + len(got)
            if len(set(got)) != len(got):
                part.violations.append({"properties": ["C19"], "family": "names", "what": "duplicate names from free-running threads",
                                        "case": {"threads": 6, "engines": 2, "requests": 200}})
            if not all(n.startswith("leaf_") or n.startswith(LONG_PREFIX + "_") for n in got):
                part.violations.append({"properties": ["C19"], "family": "names", "what": "a name without the requested prefix", "case": {}})
    finally:
        sys.setswitchinterval(old)


def run(tier: str, seed: int) -> list[Part]:
    parts = []
    cfgs = ["NamesSeq.cfg", "NamesQuick.cfg", "NamesTwoEng.cfg"]
    for cfg in cfgs:
        t0 = time.time()
        res = run_tlc("MC_Names.tla", cfg, workers=8, heap="2g")
        if res.violated:
            raise MachineryError(f"model-level violation of {res.violated} in {cfg}:\n{res.error_text}")
        part = Part(name=f"names:{cfg}", cfg=cfg, states=res.distinct, transitions=res.generated)
        outs = parallel_replay(worker, res.raw_lines(), chunk=60, nproc=8)
        merge_worker_outputs(part, outs)
        part.wall_s = time.time() - t0
        parts.append(part)
    if tier == "thorough":
        t0 = time.time()
        res = run_tlc("MC_Names.tla", "NamesBig.cfg", workers=16, heap="3g", simulate="num=400", seed=seed, extra_args=["-depth", "19"])
        part = Part(name="names:NamesBig.cfg:simulate", cfg="NamesBig.cfg", states=max(res.distinct, 1), transitions=max(res.generated, 1), exhaustive=False)
        lines = sorted(set(res.raw_lines()))[:20000]
        outs = parallel_replay(worker, lines, chunk=60, nproc=8)
        merge_worker_outputs(part, outs)
        part.wall_s = time.time() - t0
        parts.append(part)
    for cfg, what in (("NamesNoUuid.cfg", "two engines hand out the same counter value"), ("NamesNoUuidLost.cfg", "a lost update repeats a counter value on one engine")):
        kf = run_tlc("MC_Names.tla", cfg, workers=4, heap="2g", expect_violation=True)
        if kf.violated != "Unique":
            raise MachineryError(f"companion {cfg} (names without the uuid component) no longer violates Unique")
        p = Part(name=f"names:{cfg}", cfg=cfg, states=max(kf.distinct, 1), transitions=max(kf.generated, 1))
        p.notes.append(f"TLC shows the uuid component is necessary: without it {what}")
        parts.append(p)
    t0 = time.time()
    fr = Part(name="names:free-running-threads", cfg="-", states=1, transitions=1, exhaustive=False)
    free_run(fr, 3 if tier == "quick" else 30)
    fr.wall_s = time.time() - t0
    parts.append(fr)
    return parts
