"""Family 'proc' — ProcHistory.tla replayed into the real Processor, the real
iteration engine and attach_payload.

Per emitted TLC state = (tree-building calls, history of process / reprocess /
exec / attach actions, abstract payload state after the last action):
  C07  rows of the processed tree == reference rows; the tree passed in keeps
       its structure, its transfers never gain payloads, its materializations
       gain exactly the payloads the abstract machine says; processed tree has
       the same columns/engine; hooks only on evaluable, non-trivial sources
  C10  payload cells are write-once (object identity across the history),
       attach on non-markers / filled markers raises TypeError and changes
       nothing; the leaf below the materializations is iterated at most once
       over the whole history
"""
from __future__ import annotations

import json
import time

from . import build, project
from .core import trim, MachineryError, Part, merge_worker_outputs, parallel_replay
from .fam_iter import counting_class, fingerprint
from .fam_multi import collect_nodes, engines, sql_mat_after_xfer
from .fam_sql import bag, db, load_table, nested_compound
from .procs import make_processor
from .tlc import run_tlc


class World:
    def __init__(self, st: dict):
        from lsst.daf.relation import LeafRelation
        from lsst.daf.relation.sql import Payload

        conn, tables, _ = db()
        self.conn = conn
        self.eng = engines()
        n = len(st["l1"])
        self.counter = None
        if st["src"] == "sql":
            load_table("T1", st["l1"])
            t1 = tables["T1"]
            self.leaf = self.eng["sql"].make_leaf(build.tags(("a", "b")), Payload(t1, columns_available={build.tag(c): t1.c[c] for c in ("a", "b")}),
                                                  name="L", min_rows=n, max_rows=n)
        else:
            self.counter = counting_class()(build.rows(st["l1"]))
            self.leaf = LeafRelation(self.eng["it1"], build.tags(("a", "b")), self.counter, name="L", min_rows=n, max_rows=n)

    def call(self, c, rel):
        f = c["f"]
        if f == "un":
            return build.unary_op(c["op"]).apply(rel)
        if f == "xfer":
            return rel.transferred_to(self.eng[c["dest"]])
        if f == "mat":
            return rel.materialized(c["name"])
        if f == "chainz":
            z = rel.engine.make_doomed_relation(build.tags(("a", "b")), ["statically empty"], name="Z")
            return rel.chain(z)
        if f == "joini":
            ident = rel.engine.make_join_identity_relation(name="I")
            return rel.join(ident, build.pred({"p": "cmp", "f": "eq", "l": {"x": "ref", "c": "a"}, "r": {"x": "lit", "v": 1}}))
        if f == "chainzl":
            z = rel.engine.make_doomed_relation(build.tags(("a", "b")), ["statically empty"], name="Z")
            return z.chain(rel)
        if f == "chainself":
            return rel.chain(rel)
        raise MachineryError(f"unknown call {c}")


def payload_rows(node, proc):
    """Rows held by a marker's payload (any engine)."""
    p = node.payload
    if p is None:
        return None
    from lsst.daf.relation import sql

    if isinstance(p, sql.Payload):
        import sqlalchemy

        cols = [(t, c) for t, c in p.columns_available.items()]
        q = sqlalchemy.select(*[c.label(t.qualified_name) for t, c in cols]) if cols else sqlalchemy.select(sqlalchemy.literal(1).label("one"))
        q = q.select_from(p.from_clause)
        for wterm in p.where:
            q = q.where(wterm)
        return [{t.qualified_name: row[t.qualified_name] for t, _ in cols} for row in proc_conn(proc).execute(q).mappings()]
    return project.rows(p)


def proc_conn(proc):
    return db()[0]


def tree_shape(r):
    def strip(t):
        if isinstance(t, dict):
            return {k: strip(v) for k, v in t.items() if k != "p"}
        if isinstance(t, list):
            return [strip(v) for v in t]
        return t

    return json.dumps(strip(project.tree(r)), sort_keys=True)


def replay_state(st: dict, out: dict, lazy: bool = False) -> None:
    from lsst.daf.relation import Materialization, Transfer, sql

    viol = out["violations"]
    cnt = out["counters"]
    case = {k: st[k] for k in ("src", "l1", "hist", "evhist")}
    if lazy:
        case["processor"] = "plain transfers hand over lazy payloads"
    exp = [r if isinstance(r, dict) else {} for r in st["rows"]]

    def V(props, what, **kw):
        viol.append({"properties": props, "family": "proc", "what": what, "case": case, **kw})

    w = World(st)
    rel = w.leaf
    try:
        for c in st["hist"]:
            rel = w.call(c, rel)
    except Exception as exc:  # noqa: BLE001
        V(["C07", "C08"], f"building the tree raised {type(exc).__name__}: {exc}")
        return
    real_tree = project.tree(rel)
    kf8 = st["kf8"] and sql_mat_after_xfer(real_tree)
    mats = {n.name: n for n in collect_nodes(rel) if isinstance(n, Materialization)}
    xfers = [n for n in collect_nodes(rel) if isinstance(n, Transfer)]
    shape0 = tree_shape(rel)
    proc = make_processor(w.conn, w.eng["sql"], lazy_transfers=lazy)
    seen_payload = {}  # mat name -> payload object first seen
    last_out = None
    known = False
    try:
        for i, a in enumerate(st["evhist"]):
            final = i == len(st["evhist"]) - 1
            try:
                if a["a"] == "process":
                    n_before = len(proc.log)
                    last_out = proc.process(rel)
                    target_out = last_out
                    if i == 0 and not kf8:
                        # conformance of the real hook calls to the as-coded model RA_Proc!Process (structural: drift only)
                        real_hooks = [{"hook": e["hook"], "mas": (e.get("materialize_as") if e["hook"] == "transfer" else e.get("name")) or "none"}
                                      for e in proc.log[n_before:]]
                        if real_hooks != list(st.get("hookspec", [])):
                            out["n_drift"] += 1
                            if len(out["drift"]) < 3:
                                out["drift"].append({"what": "hook calls differ from the as-coded Processor model", "case": case,
                                                     "real": real_hooks, "model": st.get("hookspec")})
                        cnt["hook_sequences_compared"] = cnt.get("hook_sequences_compared", 0) + 1
                elif a["a"] == "reprocess":
                    last_out = proc.process(last_out)
                    target_out = last_out
                elif a["a"] == "wrap":
                    # users keep building on the tree process() returned (finding F27)
                    try:
                        cached = last_out.materialized("mw")
                    except Exception as exc:  # noqa: BLE001
                        if type(exc).__name__ == "RelationalAlgebraError" and "will not preserve row order" in str(exc):
                            cnt["wrap_refused_order_loss"] = cnt.get("wrap_refused_order_loss", 0) + 1
                            target_out = None
                            continue
                        raise
                    wrapped_out = proc.process(cached)
                    target_out = wrapped_out
                    cnt["wrap_steps"] = cnt.get("wrap_steps", 0) + 1
                    for tree_ in (cached, wrapped_out):
                        for n in collect_nodes(tree_):
                            if isinstance(n, Materialization) and n.name == "mw" and n.payload is not None and w.counter is not None \
                                    and n.payload is not w.counter:
                                saved = w.counter.starts
                                try:
                                    payload_rows(n, proc)
                                    mid = w.counter.starts
                                    payload_rows(n, proc)
                                    if w.counter.starts > mid:
                                        V(["C10"], "a materialization built on the tree process() returned adopted a transfer payload that "
                                                   "is not a cache: reading its payload again re-evaluates its upstream tree", step=i)
                                finally:
                                    w.counter.starts = saved
                elif a["a"] == "exec":
                    got = project.rows(rel.engine.execute(rel))
                    target_out = None
                    if got != exp:
                        V(["C10", "C01", "C07"], "iteration execute() returned rows different from direct evaluation", observed=got, expected=exp, step=i)
                elif a["a"] == "attach":
                    tg = a["target"]
                    leaf_obj = getattr(w.leaf, "skip_to", w.leaf)   # the LeafRelation itself (SQL leaves come wrapped in a Select)
                    node = mats[tg[4:]] if tg.startswith("mat:") else (leaf_obj if tg == "leaf" else rel)
                    expect_ok = st["lastErr"] == "none" if final else None
                    fp = fingerprint(node)
                    before = node.payload
                    marker_empty = tg.startswith("mat:") and node.payload is None
                    # a payload holding the rows the materialization denotes (keeps later content consistent)
                    try:
                        if marker_empty:
                            # compute the correct rows without touching `node`: evaluate a twin of its upstream
                            twin_rows = build.rows(st["matrows"][tg[4:]])
                            node.attach_payload(proc.payload_for(node.engine, node.columns, twin_rows))
                        else:
                            node.attach_payload(object())
                        raised = None
                    except TypeError:
                        raised = "TypeError"
                    except Exception as exc:  # noqa: BLE001
                        raised = type(exc).__name__
                    if marker_empty and raised:
                        V(["C10"], f"attach_payload on a marker without payload raised {raised}", step=i, target=tg)
                    if tg == "leaf" and final:
                        # a leaf declared WITHOUT content is still not a marker: attaching must be refused as well
                        from lsst.daf.relation import LeafRelation
                        bare = LeafRelation(w.eng["it1"], build.tags(("a", "b")), None, name="N", min_rows=0, max_rows=None)
                        try:
                            bare.attach_payload(object())
                            V(["C10"], "attach_payload on a leaf relation constructed without a payload did not raise (TypeError expected)", step=i)
                        except TypeError:
                            pass
                        except Exception as exc:  # noqa: BLE001
                            V(["C10"], f"attach_payload on a leaf relation raised {type(exc).__name__} (TypeError expected)", step=i)
                        if bare.payload is not None:
                            V(["C10"], "a rejected attach_payload set the payload of a leaf relation", step=i)
                    if not marker_empty:
                        if raised != "TypeError":
                            V(["C10"], f"attach_payload on {'a marker that already has a payload' if tg.startswith('mat:') else 'a non-marker relation'} "
                                       f"{'raised ' + raised if raised else 'did not raise'} (TypeError expected)", step=i, target=tg)
                        if node.payload is not before:
                            V(["C10"], "a rejected attach_payload replaced the existing payload", step=i, target=tg)
                    target_out = None
                else:
                    raise MachineryError(f"unknown eval action {a}")
            except MachineryError:
                raise
            except Exception as exc:  # noqa: BLE001
                if type(exc).__name__ == "EngineError" and "Cannot persist materialization" in str(exc) and kf8:
                    known = True
                    break
                if type(exc).__name__ == "RelationalAlgebraError" and "will not preserve row order" in str(exc) and kf8:
                    # open finding F16: same matcher as F8 (SQL materialization over a rebuilt upstream), own signature
                    out["known"]["F16"] = out["known"].get("F16", 0) + 1
                    return
                if 'near "(": syntax error' in str(exc) and nested_compound(real_tree):
                    cnt["sqlite_nested_compound_skipped"] = cnt.get("sqlite_nested_compound_skipped", 0) + 1
                    return
                V(["C07", "C10"], f"{a['a']} raised {type(exc).__name__}: {str(exc)[:300]}", step=i,
                  hook_failures=[e for e in proc.log if e["error"]][:2])
                return
            # ---- processed tree: rows, columns, engine
            if target_out is not None:
                if target_out.engine is not rel.engine or set(target_out.columns) != set(rel.columns):
                    V(["C07"], "processed tree has a different engine or columns", step=i)
                try:
                    saved = w.counter.starts if w.counter is not None else 0
                    if isinstance(target_out.engine, sql.Engine):
                        got = project.rows(proc.evaluate(target_out))
                    else:
                        got = project.rows(target_out.engine.execute(target_out))
                    if w.counter is not None:
                        w.counter.starts = saved      # reads made by the harness itself are not counted
                    if st["ldet"]:
                        if got != exp:
                            V(["C07"], "rows of the processed tree differ (as a list) from direct evaluation", observed=got, expected=exp, step=i)
                    elif st["bdet"]:
                        if bag(got) != bag(exp):
                            V(["C07"], "rows of the processed tree differ (as a multiset) from direct evaluation", observed=got, expected=exp, step=i)
                    cnt["processed_trees_executed"] = cnt.get("processed_trees_executed", 0) + 1
                except Exception as exc:  # noqa: BLE001
                    if type(exc).__name__ == "EngineError" and "Cannot persist materialization" in str(exc) and kf8:
                        known = True
                        break
                    if 'near "(": syntax error' in str(exc) and nested_compound(project.tree(target_out)):
                        cnt["sqlite_nested_compound_skipped"] = cnt.get("sqlite_nested_compound_skipped", 0) + 1
                        return
                    V(["C07", "C08"], f"executing the processed tree raised {type(exc).__name__}: {str(exc)[:300]}", step=i)
                    return
            # ---- invariants of the input tree after every step
            if tree_shape(rel) != shape0:
                V(["C07", "C09"], "the structure of the tree passed in changed", step=i)
            for x in xfers:
                if x.payload is not None:
                    V(["C07"], "a transfer node of the tree passed in gained a payload", step=i)
            for name, node in mats.items():
                p = node.payload
                if name in seen_payload and p is not seen_payload[name]:
                    V(["C10"], f"the payload of materialization {name!r} was replaced or cleared after it had been set", step=i)
                if p is not None and name not in seen_payload:
                    seen_payload[name] = p
            for e in proc.log:
                if e["max_rows"] == 0 or e["join_identity"]:
                    V(["C07"], "a Processor hook was invoked for a statically empty / join-identity relation", hook=e)
        # ---- abstract payload state vs the specification's (after the whole history)
        if not known:
            for name, node in mats.items():
                model = st["pay"][name]
                has = node.payload is not None
                if (model[0] == "rows") != has:
                    if kf8:
                        known = True
                        continue
                    V(["C07", "C10"], f"materialization {name!r} of the tree passed in {'has' if has else 'has no'} payload but the "
                                      f"specification's state machine says it {'has none' if has else 'has one'}")
                elif has:
                    saved = w.counter.starts if w.counter is not None else 0
                    if w.counter is not None and node.payload is not w.counter:
                        # reading the cached payload a second time must not re-evaluate the upstream tree
                        try:
                            payload_rows(node, proc)
                            mid = w.counter.starts
                            payload_rows(node, proc)
                            if w.counter.starts > mid:
                                V(["C10"], f"reading the payload of materialization {name!r} again re-evaluates its upstream tree "
                                           "(the payload is not a cache of the rows)")
                        except Exception:  # noqa: BLE001 - reported below
                            pass
                        w.counter.starts = saved
                    try:
                        got = payload_rows(node, proc)
                    except Exception as exc:  # noqa: BLE001
                        V(["C10"], f"the payload of materialization {name!r} is not the payload that was attached first "
                                   f"(reading it raised {type(exc).__name__})")
                        continue
                    if w.counter is not None:
                        w.counter.starts = saved
                    want = [r if isinstance(r, dict) else {} for r in model[1]]
                    if bag(got) != bag(want) or (st["iteronly"] and got != want):
                        V(["C10", "C07"], f"payload of materialization {name!r} holds rows different from its upstream's content", observed=got, expected=want)
            if w.counter is not None:
                cnt["leaf_starts_total"] = cnt.get("leaf_starts_total", 0) + w.counter.starts
                n_evals = sum(1 for a in st["evhist"] if a["a"] in ("exec", "process", "reprocess", "wrap"))
                bound = _leaf_iterations_needed(rel, n_evals)
                # when process() simplified a materialization onto the leaf itself, the leaf's own payload
                # object IS the cached payload: reading the cache then iterates it, which is not a re-evaluation
                aliased = any(n.payload is w.counter for n in mats.values())
                if w.counter.starts > bound and not aliased:
                    V(["C10"], f"the leaf upstream of the materializations was iterated {w.counter.starts} times over the history; "
                               f"evaluating every materialization's upstream exactly once needs at most {bound}")
        if known:
            out["known"]["F8"] = out["known"].get("F8", 0) + 1
    finally:
        proc.cleanup()


def _leaf_iterations_needed(rel, n_evals: int = 1) -> int:
    """Leaf iterations the history may need: the part of the tree below a (shared)
    materialization is evaluated once over the whole history; whatever lies
    outside every materialization is legitimately re-evaluated by each of the
    `n_evals` execute()/process() steps (nothing caches it)."""
    from lsst.daf.relation import BinaryOperationRelation, LeafRelation, MarkerRelation, Materialization, UnaryOperationRelation

    seen = set()

    def cost(x, under):
        """(iterations below materializations, iterations outside them)"""
        match x:
            case LeafRelation():
                n = 1 if x.name == "L" else 0
                return (n, 0) if under else (0, n)
            case UnaryOperationRelation(target=target):
                return cost(target, under)
            case BinaryOperationRelation(lhs=lhs, rhs=rhs):
                a, b = cost(lhs, under), cost(rhs, under)
                return (a[0] + b[0], a[1] + b[1])
            case Materialization(target=target):
                if id(x) in seen:
                    return (0, 0)
                seen.add(id(x))
                return cost(target, True)
            case MarkerRelation(target=target):
                return cost(target, under)
        return (0, 0)

    below, outside = cost(rel, False)
    return below + max(n_evals, 1) * outside


def _rows_of_upstream(node, proc):
    """Rows of a materialization's upstream, computed on a processed copy so
    that the node itself is not touched."""
    from lsst.daf.relation import sql

    target = proc.process(node.target)
    if isinstance(target.engine, sql.Engine):
        return proc.evaluate(target)
    return [dict(r) for r in target.engine.execute(target)]


def worker(lines, ctx):
    out = {"n": 0, "nontrivial": 0, "violations": [], "counters": {}, "samples": [], "events": [], "n_drift": 0, "drift": [], "known": {}}
    for ln in lines:
        st = json.loads(ln)
        out["n"] += 1
        if st["fired"]:
            out["nontrivial"] += 1
        replay_state(st, out)
        if st["src"] == "it1" and st["iteronly"] and any(a["a"] in ("process", "reprocess") for a in st["evhist"]):
            # second pass with a Processor whose plain transfers are lazy: only materializations may cache
            replay_state(st, out, lazy=True)
            out["counters"]["lazy_processor_histories"] = out["counters"].get("lazy_processor_histories", 0) + 1
        if len(out["violations"]) > 60:
            out["violations"] = trim(out["violations"])
        if len(out["samples"]) < 1 and len(st["evhist"]) >= 2:
            out["samples"].append({"src": st["src"], "hist": st["hist"], "evhist": st["evhist"], "pay": st["pay"], "evals": st["evals"]})
    return out


CONFIGS = {"quick": ["ProcQuick.cfg"], "thorough": ["ProcQuick.cfg", "ProcHist3.cfg", "ProcFull.cfg"]}


def run(tier: str, seed: int) -> list[Part]:
    parts = []
    for cfg in CONFIGS[tier]:
        t0 = time.time()
        res = run_tlc("MC_Proc.tla", cfg, heap="6g" if tier == "thorough" else "3g", timeout=7200)
        if res.violated:
            raise MachineryError(f"model-level violation of {res.violated} in {cfg}:\n{res.error_text}")
        part = Part(name=f"prochistory:{cfg}", cfg=cfg, states=res.distinct, transitions=res.generated)
        outs = parallel_replay(worker, res.raw_lines(), chunk=100)
        merge_worker_outputs(part, outs)
        part.counters["tlc_wall_s"] = res.wall_s
        part.wall_s = time.time() - t0
        parts.append(part)
    # companion: in the class of the open findings F8 / F16 the as-coded Processor model misbehaves too
    kf = run_tlc("MC_Proc.tla", "ProcKF8.cfg", expect_violation=True, heap="3g")
    if kf.violated != "KF8Gone":
        raise MachineryError(f"companion ProcKF8 no longer violates KF8Gone (got {kf.violated})")
    p = Part(name="prochistory:F8-companion", cfg="ProcKF8.cfg", states=max(kf.distinct, 1), transitions=max(kf.generated, 1))
    p.notes.append("TLC counterexample on RA_Proc!Process re-derives F8: a SQL materialization whose upstream is rebuilt ends without payload / unevaluable hook source")
    parts.append(p)
    kf = run_tlc("MC_Proc.tla", "ProcKF27.cfg", expect_violation=True, heap="3g")
    if kf.violated != "WrapSound":
        raise MachineryError(f"companion ProcKF27 no longer violates WrapSound (got {kf.violated})")
    p = Part(name="prochistory:F27-companion", cfg="ProcKF27.cfg", states=max(kf.distinct, 1), transitions=max(kf.generated, 1))
    p.notes.append("TLC counterexample on RA_Proc!Process re-derives F27 from the pinned-commit rule: a materialization built on a processed tree adopts a transfer payload that was not made for caching")
    parts.append(p)
    return parts
