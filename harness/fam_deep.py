"""Family 'deep' — long random programs (depth 5-12, larger leaves and values)
executed by the REAL iteration engine and the REAL SQL engine on SQLite, judged
by TLC (TraceProgram.tla) against the naive semantics of the recorded operation
sequence.  Seeded by VERIF_SEED.  Extends C01 / C02 / C05 / C08 / C11 beyond
the exhaustive bounds of IterProgram / SqlProgram.
"""
from __future__ import annotations

import json
import os
import random
import time

from . import build, project, tracecheck
from .core import MachineryError, Part, merge_worker_outputs, parallel_replay
from .fam_iter import full_tree
from .fam_sql import db, load_table, nested_compound

_st: dict = {}


def _engines():
    if "e" not in _st:
        from lsst.daf.relation import iteration, sql

        _st["e"] = (iteration.Engine(name="it1"), sql.Engine(name="sql"))
    return _st["e"]


# ---------------------------------------------------------------- generation
def rexpr(rng, cols, depth):
    if depth <= 0 or rng.random() < 0.4:
        if cols and rng.random() < 0.75:
            return {"x": "ref", "c": rng.choice(sorted(cols))}
        return {"x": "lit", "v": rng.randint(-2, 3)}
    f = rng.choice(["neg", "add", "sub", "add", "sub", "mul"])
    if f == "neg":
        return {"x": "fn", "f": "neg", "args": [rexpr(rng, cols, depth - 1)]}
    if f == "mul":   # keep values small: multiply by a literal only
        return {"x": "fn", "f": "mul", "args": [rexpr(rng, cols, depth - 1), {"x": "lit", "v": rng.randint(-2, 2)}]}
    return {"x": "fn", "f": f, "args": [rexpr(rng, cols, depth - 1), rexpr(rng, cols, depth - 1)]}


def has_ref(e):
    return e["x"] == "ref" or (e["x"] == "fn" and any(has_ref(a) for a in e["args"]))


def rpred(rng, cols, depth):
    r = rng.random()
    if depth <= 0 or r < 0.35:
        k = rng.random()
        if k < 0.08:
            return {"p": "lit", "v": rng.random() < 0.7}
        if k < 0.6:
            return {"p": "cmp", "f": rng.choice(["eq", "ne", "lt", "le", "gt", "ge"]), "l": rexpr(rng, cols, 1), "r": rexpr(rng, cols, 1)}
        if k < 0.85:
            return {"p": "in", "e": rexpr(rng, cols, 1),
                    "k": {"k": "range", "s": rng.randint(-3, 3), "t": rng.randint(-3, 5), "st": rng.choice([-2, -1, 1, 2, 3])}}
        return {"p": "in", "e": rexpr(rng, cols, 1), "k": {"k": "seq", "items": [rexpr(rng, cols, 1) for _ in range(rng.randint(0, 3))]}}
    if r < 0.5:
        return {"p": "not", "q": rpred(rng, cols, depth - 1)}
    return {"p": "and" if r < 0.78 else "or", "qs": [rpred(rng, cols, depth - 1) for _ in range(rng.randint(0, 3))]}


def rprogram(rng):
    cols = {"a", "b", "c"}
    fresh = ["d", "e", "f"]
    ops = []
    n = rng.randint(5, 12)
    sorted_total = False
    while len(ops) < n:
        k = rng.random()
        if k < 0.15 and fresh and cols:
            e = rexpr(rng, cols, 2)
            if not has_ref(e):
                continue
            tag = fresh.pop(0)
            ops.append({"o": "calc", "tag": tag, "e": e})
            cols = cols | {tag}
        elif k < 0.3:
            keep = {c for c in cols if rng.random() < 0.75}
            ops.append({"o": "proj", "cols": sorted(keep)})
            cols = keep
            sorted_total = False
        elif k < 0.5:
            ops.append({"o": "sel", "p": rpred(rng, cols, 2)})
        elif k < 0.6:
            ops.append({"o": "dedup"})
        elif k < 0.8:
            cs = sorted(cols)
            rng.shuffle(cs)
            total = rng.random() < 0.7
            terms = [{"e": {"x": "ref", "c": c}, "asc": rng.random() < 0.6} for c in (cs if total else cs[: rng.randint(0, 2)])]
            if rng.random() < 0.2 and cols:
                terms.insert(0, {"e": rexpr(rng, cols, 1), "asc": rng.random() < 0.5})
            ops.append({"o": "sort", "terms": terms})
            sorted_total = total
        else:
            # most slices directly after a total sort, so that the SQL result is determined
            if not sorted_total and rng.random() < 0.8:
                cs = sorted(cols)
                rng.shuffle(cs)
                ops.append({"o": "sort", "terms": [{"e": {"x": "ref", "c": c}, "asc": rng.random() < 0.6} for c in cs]})
                if len(ops) >= n:
                    break
            a = rng.randint(0, 3)
            b = rng.choice([-1, a, a + 1, a + 2, a + 4])
            ops.append({"o": "slice", "a": a, "b": b})
    return ops


def rrows(rng):
    n = rng.randint(0, 6)
    pool = [{"a": rng.randint(0, 2), "b": rng.randint(0, 2), "c": rng.randint(-1, 1)} for _ in range(4)]
    return [dict(rng.choice(pool)) for _ in range(n)]


# ---------------------------------------------------------------- execution
def apply_op(rel, o):
    k = o["o"]
    if k == "calc":
        return rel.with_calculated_column(build.tag(o["tag"]), build.expr(o["e"]))
    if k == "proj":
        return rel.with_only_columns(build.tags(o["cols"], reverse=True))
    if k == "sel":
        return rel.with_rows_satisfying(build.pred(o["p"]))
    if k == "dedup":
        return rel.without_duplicates()
    if k == "sort":
        return rel.sorted(build.sort_terms(o["terms"]))
    if k == "slice":
        return rel[o["a"] : (None if o["b"] == -1 else o["b"])]
    raise MachineryError(f"unknown op {o}")


def worker(seeds, ctx):
    from lsst.daf.relation import sql
    from lsst.daf.relation.iteration import RowSequence

    out = {"n": 0, "nontrivial": 0, "violations": [], "counters": {}, "samples": [], "events": [], "n_drift": 0, "drift": [], "known": {}}
    it, sq = _engines()
    conn, tables, _ = db()
    if "t4" not in _st:
        import sqlalchemy

        md = sqlalchemy.MetaData()
        t4 = sqlalchemy.Table("t4", md, sqlalchemy.Column("rid", sqlalchemy.Integer, primary_key=True),
                              *[sqlalchemy.Column(c, sqlalchemy.Integer) for c in ("a", "b", "c")])
        md.create_all(conn)
        _st["t4"] = t4
    t4 = _st["t4"]
    cols = ("a", "b", "c")
    for s in seeds:
        rng = random.Random(int(s))
        rows = rrows(rng)
        ops = rprogram(rng)
        case = {"seed": int(s), "l1": rows, "ops": ops}
        out["n"] += 1
        ev = {"l1": rows, "cols": list(cols), "ops": ops}
        # ---- iteration engine
        try:
            leaf = it.make_leaf(build.tags(cols), RowSequence(build.rows(rows)), name="T1")
            rel = leaf
            for o in ops:
                rel = apply_op(rel, o)
            ev["iter"] = project.rows(it.execute(rel))
        except Exception as exc:  # noqa: BLE001
            out["violations"].append({"properties": ["C01", "C05", "C08"], "family": "deep", "case": case,
                                      "what": f"iteration engine: a valid random program raised {type(exc).__name__}: {str(exc)[:200]}"})
            continue
        # ---- SQL engine on SQLite, both scan orders
        try:
            conn.execute(t4.delete())
            if rows:
                conn.execute(t4.insert(), [dict(r, rid=i + 1) for i, r in enumerate(rows)])
            sleaf = sq.make_leaf(build.tags(cols), sql.Payload(t4, columns_available={build.tag(c): t4.c[c] for c in cols}),
                                 name="T1", min_rows=len(rows), max_rows=len(rows))
            srel = sleaf
            order_loss = False
            for o in ops:
                srel = apply_op(srel, o)
            names = [t.qualified_name for t in srel.columns]
            res = []
            for reverse in (False, True):
                conn.exec_driver_sql(f"PRAGMA reverse_unordered_selects = {'ON' if reverse else 'OFF'}")
                ex = sq.to_executable(srel)
                res.append([{n: row[n] for n in names} for row in conn.execute(ex).mappings()])
            ev["sqlf"], ev["sqlr"] = res
            ev["tree"] = full_tree(srel)
            ev["nosql"] = False
        except Exception as exc:  # noqa: BLE001
            if type(exc).__name__ == "RelationalAlgebraError" and "row order" in str(exc):
                # documented refusal: a sort without slice would be buried / lost
                out["counters"]["sql_refused_row_order"] = out["counters"].get("sql_refused_row_order", 0) + 1
                ev.update({"nosql": True, "sqlf": [], "sqlr": [], "tree": {"k": "leaf", "id": "T1", "eng": "sql", "cols": list(cols), "min": 0, "max": -1}})
            else:
                out["violations"].append({"properties": ["C02", "C08"], "family": "deep", "case": case,
                                          "what": f"SQL engine: a valid random program raised {type(exc).__name__}: {str(exc)[:300]}"})
                continue
        ev["case"] = case
        out["events"].append(ev)
        if len(ops) >= 8:
            out["nontrivial"] += 1
        if len(out["samples"]) < 1:
            out["samples"].append({"ops": ops, "l1": rows, "iter_rows": ev["iter"][:4]})
    return out


def worker_multi(seeds, ctx):
    """Deep random programs over TWO iteration engines with transfers, materializations and random
    preferred-engine options (backtracking) on every operation; executed by the iteration engine,
    which follows iteration->iteration transfers; judged by TLC against the naive semantics (C03)."""
    from lsst.daf.relation import EngineError, iteration
    from lsst.daf.relation.iteration import RowSequence

    out = {"n": 0, "nontrivial": 0, "violations": [], "counters": {}, "samples": [], "events": [], "n_drift": 0, "drift": [], "known": {}}
    if "it2" not in _st:
        _st["it2"] = iteration.Engine(name="it2")
    it1, _ = _engines()
    it2 = _st["it2"]
    cols = ("a", "b", "c")
    for s in seeds:
        rng = random.Random(int(s) + 999983)
        rows = rrows(rng)
        ops = rprogram(rng)
        case = {"seed": int(s), "l1": rows, "steps": []}
        out["n"] += 1
        rel = it1.make_leaf(build.tags(cols), RowSequence(build.rows(rows)), name="T1")
        applied = []
        seen_dedup = False
        n_mat = 0
        try:
            for o in ops:
                r = rng.random()
                if r < 0.25:
                    dest = rng.choice([it1, it2])
                    rel = rel.transferred_to(dest)
                    case["steps"].append({"xfer": dest.name})
                elif r < 0.32 and n_mat < 2:
                    n_mat += 1
                    rel = rel.materialized(f"m{n_mat}")
                    case["steps"].append({"mat": n_mat})
                kw = {}
                # open finding F2: a projection backtracked through a deduplication - not generated here
                if rng.random() < 0.6 and not (o["o"] == "proj" and seen_dedup):
                    kw = {"preferred_engine": rng.choice([it1, it2]), "backtrack": rng.random() < 0.8,
                          "transfer": rng.random() < 0.4, "require_preferred_engine": rng.random() < 0.3}
                try:
                    rel = build.unary_op(o).apply(rel, **kw)
                except EngineError:
                    if kw.get("require_preferred_engine") and not kw.get("transfer"):
                        case["steps"].append({"refused": o["o"]})
                        break          # documented refusal; later operations may depend on this one, so the program ends here
                    raise
                applied.append(o)
                seen_dedup = seen_dedup or o["o"] == "dedup"
                case["steps"].append({"op": o, "opts": {k: (v.name if hasattr(v, "name") else v) for k, v in kw.items()}})
            got = project.rows(rel.engine.execute(rel))
        except Exception as exc:  # noqa: BLE001
            out["violations"].append({"properties": ["C03", "C08"], "family": "deep", "case": case,
                                      "what": f"two iteration engines: a valid random program with preferred-engine options raised {type(exc).__name__}: {str(exc)[:200]}"})
            continue
        out["events"].append({"l1": rows, "cols": list(cols), "ops": applied, "iter": got, "nosql": True, "sqlf": [], "sqlr": [],
                              "tree": {"k": "leaf", "id": "T1", "eng": "sql", "cols": list(cols), "min": 0, "max": -1}, "case": case})
        if any("opts" in st and st["opts"] for st in case["steps"]):
            out["nontrivial"] += 1
        if len(out["samples"]) < 1:
            out["samples"].append({"steps": case["steps"][:6], "rows": got[:3]})
    return out


CLAUSES = {"iter": ["C01", "C05"], "sqlbag": ["C02"], "sqllist": ["C11"], "cols": ["C06", "C01", "C02"], "wf": ["C14"]}


def run(tier: str, seed: int) -> list[Part]:
    t0 = time.time()
    n = 1200 if tier == "quick" else 40000
    part = Part(name="deep-random-programs", cfg="TraceProgram", states=1, transitions=1, exhaustive=False)
    seeds = [str(seed * 7919 + 13 * i + 1) for i in range(n)]
    outs = parallel_replay(worker, seeds, chunk=100)
    merge_worker_outputs(part, outs)
    events = [ev for o in outs for ev in o.get("events", [])]
    cases = [ev.pop("case") for ev in events]
    verdicts = tracecheck.validate("TraceProgram.tla", events, batch=3000)
    part.traces = len(events)
    part.replayed = 0
    part.counters["programs"] = len(events)
    part.counters["sql_bag_determined"] = tracecheck.LAST_COUNTS.get("TD", 0)
    for v in verdicts:
        for clause, ok in v["v"].items():
            if clause == "det" or ok:
                continue
            part.violations.append({"properties": CLAUSES[clause], "family": "deep", "case": cases[v["id"]],
                                    "what": f"TLC (TraceProgram) rejects the recorded execution of a deep random program: clause '{clause}' "
                                            "(iter: iteration-engine rows differ from the naive semantics of the operation sequence; "
                                            "sqlbag/sqllist: SQLite rows differ although the result is determined; cols: wrong row keys)",
                                    "observed": {k: v["event"].get(k) for k in ("iter", "sqlf", "sqlr")}})
    part.wall_s = time.time() - t0
    if os.environ.get("VERIF_FOCUS", "") not in ("", "C03", "C15", "C14"):
        return [part]
    # ---- two iteration engines with backtracking options
    t0 = time.time()
    part2 = Part(name="deep-random-multi-iteration", cfg="TraceProgram", states=1, transitions=1, exhaustive=False)
    seeds = [str(seed * 104729 + 17 * i + 3) for i in range(n)]
    outs = parallel_replay(worker_multi, seeds, chunk=100)
    merge_worker_outputs(part2, outs)
    events = [ev for o in outs for ev in o.get("events", [])]
    cases = [ev.pop("case") for ev in events]
    verdicts = tracecheck.validate("TraceProgram.tla", events, batch=3000)
    part2.traces = len(events)
    part2.replayed = 0
    for v in verdicts:
        for clause, ok in v["v"].items():
            if clause == "det" or ok:
                continue
            part2.violations.append({"properties": ["C03"], "family": "deep", "case": cases[v["id"]],
                                     "what": "TLC (TraceProgram) rejects the rows of a deep random program built with preferred-engine options across two "
                                             f"iteration engines: clause '{clause}' (rows differ from applying every operation at the root)",
                                     "observed": v["event"].get("iter")})
    part2.wall_s = time.time() - t0
    return [part2] if os.environ.get("VERIF_FOCUS", "") in ("C03", "C15", "C14") else [part, part2]
