"""Writes /verif/MANIFEST.json from the table below (kept valid at all times)."""
from __future__ import annotations

import json
from pathlib import Path

VERIF = Path(__file__).resolve().parent.parent
ALL = [f"C{i:02d}" for i in range(1, 21)]

SQL = "TLA+ spec SqlProgram (TLC exhaustive: table contents x call histories through the modelled Select machine) + replay of every TLC state into the real SQL engine and SQLite (both scan orders) + real trees judged by TLC (TraceTree)"
MULTI = "TLA+ spec MultiEngine (TLC exhaustive: source engine x contents x call histories x every preferred-engine option combination) + replay into real SQL/iteration engines through a real SQLite<->iteration Processor + real trees judged by TLC (TraceTree)"
ITER = "TLA+ spec IterProgram (TLC exhaustive: leaf contents x call histories) + replay of every TLC state into the real iteration engine + real trees judged by TLC (TraceTree)"
CHECKS = {
    "C01": dict(
        technique=ITER,
        text="TLC enumerates every program of <=2 (quick) / <=3 (thorough) factory calls from a ~45-entry menu (calculations, all projections, 12-16 predicates, deduplication, 7-11 sort-term lists, 8-11 slices, chain with a second leaf and with itself, materialization, iteration->iteration transfer) over 14 (quick) / all 85 (thorough) leaf contents incl. zero-column and key/non-key schemas and four leaf-bound declarations; it maintains the reference rows with the naive semantics only and proves on the code-shaped rewrite rules and execution model that execution returns exactly those rows. Every TLC state is replayed through the real public API and executed by the real iteration engine (with RowSequence and with lazy counting payloads) and compared with TLC's rows as lists; the real tree is projected and its denotation recomputed by TLC. Beyond the exhaustive bound, 1200 (quick) / 40000 (thorough) seeded random programs of 5-12 operations over 3-6 columns and values -2..3 are executed for real and the recorded rows are judged by TLC against ApplyOps of the recorded operation sequence (TraceProgram).",
        design_ref="§0.1, §6 C01",
        note="bounded: values 0..1, <=3 rows per leaf, depth <=3; tag reuse and non-key columns without their keys are outside the documented contract and not generated; zero drift between model and code is reported in evidence",
    ),
    "C06": dict(
        technique=ITER,
        text="In every IterProgram state TLC checks that min_rows <= |Den(n)| <= max_rows, row keys == columns and the join-identity/trivial flags agree with content for EVERY node of the model tree, with leaf bounds declared exact, loose, zero-lower and unbounded; the replay executes every node of the REAL tree and compares its real row count and keys with the real relation's public min_rows/max_rows/columns/is_trivial/is_join_identity, and TLC re-checks the same on the projected real tree (TraceTree clause meta).",
        design_ref="§6 C06",
        note="iteration-engine trees in this round; SQL and multi-engine trees are added with the SqlProgram/MultiEngine specs",
    ),
    "C14": dict(
        technique=ITER,
        text="WellFormed(tree) is an invariant of IterProgram (TLC), the documented no-op calls are checked to return the identical object in the replay (action property NoOpIdentity in the model), and every real tree is judged WellFormed by TLC (TraceTree clause wf). The same holds in SqlProgram and MultiEngine (three engines, every preferred-engine option combination, no-op forms issued with options, engine-restricted functions nested in OR/NOT/containers must be refused). All 349 distinct relations built by the repository's own 82 tests (recorded by a pytest plugin, guard LSST_DAF_RELATION_VERIF) are judged by TLC as well, with a corrupt-one-field self-test showing the binding rejects. Behaviour spec IdJoin: join-identity relations of each of the three engines under 0-2 (thorough: 3) transfers, joined with a fixed operand of each engine on either side under every preferred-engine x backtrack x transfer option; TLC proves WF and content on the as-coded apply/backtrack rules, every state is replayed and the real tree judged by TLC (finding F28 - a transfer from an engine to itself - fixed, companion IdJoinKF28). IterProgram also runs with user-defined operations evaluated through apply_custom_unary_operation (IterCustom). IdJoin's fixed operand is either a three-row leaf or a relation that is a join identity only by virtue of a zero-column projection of a one-row leaf (finding F30 - an iteration-engine relation inside a sql.Select marker - fixed, companion IdJoinKF30).",
        design_ref="§0.1, §6 C14",
        note="SQL engine + two iteration engines",
    ),
    "C16": dict(
        technique=ITER,
        text="Diag (code-shaped model of Diagnostics.run) is checked by TLC in every IterProgram state: doomed => no rows; with a truthful executor doomed <=> no rows; doomed => message. The replay runs the real Diagnostics.run without and with an executor that really executes, and judges the verdicts against TLC's reference rows.",
        design_ref="§6 C16",
        note="menu contains trivially false predicates, zero-limit slices, empty leaves with non-zero declared maximum, zero-column relations",
    ),
    "C18": dict(
        technique=ITER,
        text="The laziness model Cost(tree) (payload iterations started by execute() and per iteration of the result) is checked by TLC against the documented promise (LazyPromise) in every state; the replay uses counting leaf payloads and compares real counts: lazy-only trees start nothing at execute() and at most one iteration per leaf occurrence per pass, eager operations never exceed the model, two passes give identical rows. Invariant ExecOnce: whatever consumes its input at execute time (sort, deduplication, materialization, user-defined operations evaluated through apply_custom_unary_operation) does so at most once - execute() never starts more iterations of a leaf payload than the leaf has occurrences (configuration IterCustom puts user-defined operations above and below the eager built-ins; finding F29, fixed, companion IterKF29).",
        design_ref="§6 C18",
        note="counts below the model (early termination of slices) are counted as drift, not violations",
    ),
    "C19": dict(
        technique="TLA+ spec Names (TLC exhaustive over thread interleavings of the three counter accesses) + schedule replay: real threads driven through every TLC interleaving by intercepting the engine's counter accesses",
        text="TLC enumerates every interleaving of Read-for-name / Read / Write of the non-atomic counter update for 2 threads x 2 requests on one engine (924 schedules), 3 threads on two engines (1680) and the sequential two-engine case, and proves names pairwise distinct and prefixed under the stated assumption that uuid4 draws are fresh; two companion configurations without the uuid component MUST fail (lost update on one engine; equal counters on two engines) and do. Every schedule is replayed with real threads: an Engine subclass blocks each thread before every read/write of relation_name_counter and a scheduler releases them in TLC's order; requests are issued directly, through LeafRelation construction and through materialized(); names must be pairwise distinct and prefixed, counters are compared with the model (lost updates are reproduced exactly). Free-running threads (switch interval 1 microsecond) on two engines add an unscheduled run.",
        design_ref="§6 C19",
        note="uniqueness rests on the assumption that uuid4 draws do not collide - the model shows the assumption is necessary, not that it holds; thorough adds 3 threads x 2 requests by simulation",
    ),
    "C20": dict(
        technique=ITER,
        text="For every reachable IterProgram state TLC lists the ill-formed requests of a 24-entry menu (missing columns in calculation/projection/selection/sort, existing tag, column-free calculation, negative/reversed/stepped slices, chain with different columns or engine, engine-restricted functions) with the exception class the model predicts (invariant RejectsAll: every ill-formed request is rejected by the model); the replay issues each against the real relation, demands the documented class and an unchanged relation (repr/str/columns/bounds/hash).",
        design_ref="§6 C20",
        note="default preferred-engine options in this round; the option combinations are added with the MultiEngine spec",
    ),
    "C02": dict(
        technique=SQL,
        text="TLC enumerates programs over tables T1{a,b} (3-12 contents incl. duplicates/empties, exact/loose/zero/unbounded declarations), T2{a,c}, T3{a,b}: the six unary operations from a general menu (all projections, 10 predicates, 7 sort lists, 7 slices) to depth 2 and a focused 12-operation menu (hitting every has_slice/has_dedup/has_projection/compound branch of the Select machine) to depth 3-5, plus join (with/without predicate, operand on either side) and chain with 12 pre-built operands (projected, deduplicated, selected, sorted+sliced, calculated, bare chain). TLC proves on the code-shaped Select machine that the tree denotes the reference bag for both physical table orders whenever the bag is determined, and - on the code-shaped COMPILATION model RA_SqlCompile (to_payload / _select_to_executable with the columns_available plumbing) - that the abstract SQL statement, run with both table orders, returns that bag (CompileBag) and never fails to compile (CompileTotal). The shape of every real SQLAlchemy statement (nesting, DISTINCT, WHERE/ON, ORDER BY directions, OFFSET/LIMIT, columns) is compared with the shape the model predicts. Every TLC state is built through the real API, compiled by the real engine, run on SQLite with reverse_unordered_selects off and on, and compared as a multiset with TLC's rows; the real tree is also judged by TLC (denotation guarded by TLC's own determinacy analysis of the real tree). Operands include relations made by the engine itself (doomed, zero-column doomed, join identity); column tags have colliding hashes and column sets are declared in different insertion orders so that positional UNION pairing is exercised. Deep random programs (5-12 operations) run on SQLite are judged by TLC (TraceProgram). Additionally 1 500 (quick) / 40 000 (thorough) seeded RANDOM POOL PROGRAMS (8-16 steps building on any earlier member: operations with random preferred-engine options, chains, joins incl. explicit max_columns, transfers among three engines, materializations, trees returned by process()) are evaluated for real and judged by TLC (TracePool.tla), which computes the reference rows of every member from the recorded steps and applies its own determinacy analysis to the real tree.",
        design_ref="§0.1, §6 C02",
        note="bounded: values 0..1, <=4 rows; SQLite only; bag equality demanded only when TLC's DetTree holds; nested bare compound selects are compiled but not executed (SQLite grammar limit)",
    ),
    "C08": dict(
        technique=SQL + " ; " + ITER,
        text="Every SqlProgram / IterProgram state is a call sequence the model accepts; the replay demands that the real factories accept it too and that the result compiles and executes on SQLite (or in the iteration engine) without any exception, in both scan orders; exceptions after construction (KeyError, NotImplementedError, database errors) are violations. Additionally 1 500 (quick) / 40 000 (thorough) seeded RANDOM POOL PROGRAMS (8-16 steps building on any earlier member: operations with random preferred-engine options, chains, joins incl. explicit max_columns, transfers among three engines, materializations, trees returned by process()) are evaluated for real and judged by TLC (TracePool.tla), which computes the reference rows of every member from the recorded steps and applies its own determinacy analysis to the real tree.",
        design_ref="§6 C08",
        note="joins/chains of arbitrarily built operands from the 12-operand menu; each further occurrence of a table in one query gets its own alias (user obligation for self-joins)",
    ),
    "C11": dict(
        technique=SQL,
        text="For every SqlProgram state TLC decides from the data whether the outermost query level carries a sort that totally orders its rows (OrdTree) and proves in the model that the tree's denotation then equals the reference LIST for both physical orders; the replay fetches rows in order from SQLite for both scan orders and demands list equality in exactly those states (slices under a total sort, trailing sort followed by slices/projections/deduplications). Requests that would bury a sort without slice under a join or chain are listed by TLC as must-be-refused (invariant OrderLossRefused) and the replay demands RelationalAlgebraError. Deep random programs add list comparisons judged by TLC whenever its ListDet analysis of the real tree holds. Additionally 1 500 (quick) / 40 000 (thorough) seeded RANDOM POOL PROGRAMS (8-16 steps building on any earlier member: operations with random preferred-engine options, chains, joins incl. explicit max_columns, transfers among three engines, materializations, trees returned by process()) are evaluated for real and judged by TLC (TracePool.tla), which computes the reference rows of every member from the recorded steps and applies its own determinacy analysis to the real tree.",
        design_ref="§0.1, §6 C11",
        note="focused menu: total and partial sorts, three slice windows, projection, deduplication, selection, calculation in every relative position to depth 3 (quick) / 5 (thorough)",
    ),
    "C17": dict(
        technique=SQL,
        text="Conform(rel) = rel and MarkerCoherent(rel) are invariants of SqlProgram (TLC); the replay checks engine.conform(rel) is rel and the is_compound flag on every real Select, and hands the real tree to TLC, which re-derives each marker's target from its recorded slots and skip target and compares (TraceTree clause coh, incl. StrictCoherent = the property read to the letter). RawConformKeeps: for every program the same operation sequence is also assembled bottom-up with the plain constructors, conformed by the real engine, executed on SQLite and compared with TLC's rows, and the conformed real tree is judged by TLC. The relations built by the repository's own tests are judged too.",
        design_ref="§0.1, §0.3 (F15), §6 C17",
        note="open finding F15 (a projection that drops a calculated column elides the Calculation from the Select's target chain) is excluded by matcher and reported as KNOWN-FINDING; companion SqlKF15 proves it still occurs",
    ),
    "C03": dict(
        technique=MULTI,
        text="TLC enumerates trees with the source leaf in the SQL engine or an iteration engine, up to 2 (quick) / 3 (thorough) default-option calls (8 operations, transfers to each of three engines incl. round trips and self-transfers, materializations), then ONE final operation out of 6-16 (calculation, projections incl. ones that drop columns needed downstream, selections, deduplication, sorts, slices) with all 24 combinations of preferred engine x backtrack x transfer x require_preferred_engine, and joins with a SQL leaf under every backtrack/transfer combination. On the code-shaped apply/backtrack/commute/transfer rules TLC proves: content equals the naive application (list or bag, as determined), columns equal, no ColumnError from placement (NoPlacementColumnError), transfer=>result in the preferred engine unless backtracking fully succeeded, require=>no operation added outside it. Every state is replayed through the real API, processed by a real Processor (SQLite temp tables <-> RowSequence) and executed; rows, columns, engine and operation counts per engine are compared with TLC's oracle. The final call is ALSO issued on the tree returned by Processor.process() (transfers and materializations hold payloads): TLC runs the as-coded processor model (RA_Proc) and then the same apply/backtrack rules on the payloaded tree and proves ProcessedBaseSound (accepted like on the unprocessed tree, well-formed, reference rows, truthful bounds, a payload survives only on a marker whose upstream is unchanged); the replay does the same with a real Processor and compares rows, tree structure and the payload cell of every marker with the model. Joins are issued both as rel.join(T2) and as Join(p).partial(T2, is_lhs=True).apply(rel). Additionally 1 500 (quick) / 40 000 (thorough) seeded RANDOM POOL PROGRAMS (8-16 steps building on any earlier member: operations with random preferred-engine options, chains, joins incl. explicit max_columns, transfers among three engines, materializations, trees returned by process()) are evaluated for real and judged by TLC (TracePool.tla), which computes the reference rows of every member from the recorded steps and applies its own determinacy analysis to the real tree. Behaviour spec IdJoin (added last): a join identity or an ordinary two-row leaf of each of the three engines under <=2 transfers and one operation / locked materialization, joined through Join().partial(fixed, is_lhs).apply(...) with a fixed operand of each engine (a three-row leaf, or a join identity made by a zero-column projection) under every preferred_engine x backtrack x transfer x require_preferred_engine combination: TLC proves well-formedness, content and RequireHonoured (with require the call adds no operation outside the preferred engine) on the as-coded rules; every state is replayed, the real tree judged by TLC, every refused request refused by the real code.",
        design_ref="§6 C03",
        note="open findings F2 (projection past deduplication, pinned by a repository test) and F8 (SQL materialization after a transfer) are excluded by matcher+signature and reported as KNOWN-FINDING; a companion configuration proves the F2 class still violates; F17 (failed backtrack through a payloaded Transfer) was found by this check and fixed in /repo (9442585); companion MultiKF17 re-derives it from the pinned-commit rule; F20 (a join moved below a projection lets the operations in between read the fixed operand's columns) was found by the random pool programs and fixed in /repo (67a6a29), companion MultiKF20; F18 fixed (63f7a7c), companion MultiKF18; F31 (require_preferred_engine not honoured for a partial join whose explicit preferred engine is not the fixed operand's) is an OPEN known finding with matcher IdJoin!KF31Match + signature, companion IdJoinKF31",
    ),
    "C15": dict(
        technique=MULTI,
        text="In MultiEngine TLC checks as action properties that every transfer lands in the requested engine (incl. A->B->A and A->B->C->A round trips across unlocked markers, which keep content by ContentKept), that no-op transfers/materializations return the relation itself, and LockedKept: every materialization node of the old tree that occurs in the new tree occurs unchanged (nothing inserted upstream) for every call with every option combination. The replay checks the same on real objects: engine of the result, number of materializations, and that Materialization objects of the input tree reappear as the IDENTICAL objects.",
        design_ref="§6 C15",
        note="three engines (one SQL, two iteration); locked nodes are materializations and leaves",
    ),
    "C07": dict(
        technique="TLA+ spec ProcHistory (TLC exhaustive: trees x histories of process/reprocess/execute/attach over an abstract payload state machine) + conformance replay into the real Processor with a real SQLite<->iteration hook implementation; plus the MultiEngine replay (every tree processed and executed)",
        text="TLC enumerates trees over a SQL or iteration source (<=3 quick / <=4 thorough building calls: operations, transfers among three engines, up to two materializations incl. directly after a transfer, chains with a statically empty leaf, chains of the tree with itself sharing its materialization nodes, zero-column branches) and every history of <=2 (quick) / <=3 (thorough) process / process-the-result-again / iteration execute / attach_payload actions, on an abstract state machine of payload cells. Every history is replayed into the real Processor (hooks implemented for real with SQLite temp tables and RowSequence): rows of the processed tree vs TLC's reference rows, structure of the input tree before/after, transfers of the input tree never payloaded, materializations payloaded exactly as the abstract machine says with the rows of their upstream, same columns/engine, hooks never called for statically empty/identity relations and always on sources that really evaluate. A second replay pass uses a Processor whose plain transfers hand over LAZY payloads (only materializations may cache), and histories over trees without any materialization but with a transfer above a chain are included. Additionally 1 500 (quick) / 40 000 (thorough) seeded RANDOM POOL PROGRAMS (8-16 steps building on any earlier member: operations with random preferred-engine options, chains, joins incl. explicit max_columns, transfers among three engines, materializations, trees returned by process()) are evaluated for real and judged by TLC (TracePool.tla), which computes the reference rows of every member from the recorded steps and applies its own determinacy analysis to the real tree.",
        design_ref="§6 C07",
        note="open findings F8 / F16 (SQL materialization whose upstream is rebuilt by process()) excluded by matcher+signature; the as-coded transcription RA_Proc!Process is proved by TLC to refine the abstract machine outside that class (ProcessRefines; companion ProcKF8 re-derives F8 in the model) and its predicted hook-call sequences are compared with the real Processor's hook log (zero drift); open finding F19 (process() prunes an empty chain branch, un-buries a sort and the re-applied join is refused) excluded by matcher+signature",
    ),
    "C09": dict(
        technique="TLA+ spec PoolHistory (TLC exhaustive to depth 2-3 + TLC simulation to depth 6-8 over a shared pool) + replay with deep fingerprints of every pool member and leaf payload after every step",
        text="TLC generates histories that interleave factory calls on ANY member of a shared pool (9 unary operations, chain, join, materialization, transfers over an iteration leaf and two SQL leaves) with compile, execute, process, diagnose and rejected requests on ANY member - exhaustively to depth 2 (quick) / 3 (thorough) and by seeded simulation to depth 6 (quick) / 8 (thorough). The specification states persistence as the action property [][pool'[k] = pool[k]]_vars. The replay performs every history on real objects and after EVERY step re-fingerprints EVERY pool member (repr, str, hash, columns, bounds), the contents of every leaf payload (RowSequence rows; SQL Payload where-list and columns_available keys), recompiles every relation compiled before (identical SQL text) and re-executes every relation executed before (identical rows); finally the whole build sequence is repeated from the same leaves and the twins must be == with equal hashes; every built relation must be hashable.",
        design_ref="§6 C09",
        note="histories beyond the exhaustive depth are sampled (VERIF_SEED); finding F5 (unhashable Sort / sequence) fixed in the code",
    ),
    "C10": dict(
        technique="TLA+ spec ProcHistory: action property WriteOnce and invariant EvalOnce on the abstract payload machine (TLC) + conformance replay (payload object identity across the history, TypeError on illegal attach, leaf iteration counts)",
        text="On the ProcHistory state machine TLC checks [][payload set => unchanged]_vars and evals[m] <= 1 for every history. The replay performs each history for real and checks after every step that each materialization's payload, once set, stays the identical object; that attach_payload succeeds only on an empty marker and raises TypeError (changing nothing) on leaves, operation relations and filled markers; that payload rows equal the upstream's content; and that the counting leaf below the materializations is iterated no more often than evaluating every shared materialization's upstream once requires, over the whole history (process twice, execute after process, two branches sharing one materialization). Parts of the tree outside every materialization may be re-read by each evaluation of the history (bound = below + evaluations x outside). Reading a materialization's payload twice must not re-evaluate its upstream (checked with a lazy-transfer Processor). Payload KINDS are part of the as-coded Processor model (a transfer payload obtained with materialize_as=None is not made for caching): invariant WrapSound demands that a materialization built ON THE TREE process() RETURNED never adopts such a payload (eval action 'wrap': processed.materialized('mw'), process again, read twice; finding F27, fixed, companion ProcKF27).",
        design_ref="§6 C10",
        note="iteration-sourced trees carry the counting leaf; SQL-sourced trees are checked for write-once/TypeError/content only; F8 excluded as for C07",
    ),
    "C04": dict(
        technique="TLA+ spec OpPairs (TLC exhaustive over operation pairs x targets) + real commute() answers judged by TLC (TracePairs)",
        text="TLC enumerates every ordered pair (existing, new) over the operation menus (calculation, all projections, 10 predicates, deduplication, 9+21 sort-term lists, 7+45 slices) and proves the commutation law on the code-shaped Commute rules for all 85 targets (<=3 rows over a,b in 0..1); for every pair the REAL new.commute(existing) is called and its answer (first, second, done) is handed back to TLC, which interprets it with the reference semantics over every target: a sound answer that differs from the model passes (reported as drift), an unsound one is a violation. Companion configurations re-derive findings F2 (open), F10 and F6 (fixed) as TLC counterexamples. Mode 'joins': the NEW operation is a resolved partial join (five fixed operands incl. a deduplication projected onto one column, both sides, three predicates) over every existing operation; the real PartialJoin.commute answers are judged by TLC as multisets (a join has no row order of its own). Companions PairsKF20 / PairsKF21 re-derive the fixed findings F20 / F21. Mode 'joins' also contains Join().partial(fixed) as constructed (common columns not resolved yet; finding F26, fixed, companion PairsKF26). Mode 'custom': one side of every pair is a USER-DEFINED operation of the extension API (RowFilter / Reordering subclasses with truthful flags: reverse, stable sort by a+b, a>0, even-count, every-other), the other side ranges over the general menu; the real commute() answers of the library's operations about such operations (decided from their flags and columns_required only) are judged by TLC (finding F25, fixed, companion PairsKF25).",
        design_ref="§6 C04",
        note="bounded: schema {a,b}+calculated tags, values 0..1, targets <=3 rows; join pairs are covered by the multi-engine/SQL specs; tag reuse is out of contract and not generated",
    ),
    "C05": dict(
        technique="TLA+ spec OpPairs/DoMerge (TLC exhaustive) + real merged trees judged by TLC (TracePairs) + execution replay in IterProgram",
        text="TLC enumerates all adjacent pairs incl. every slice pair with start 0..4 and stop None/start..6 (900 pairs on targets of length 0..6), all 441 pairs of sort-term lists of length <=2, all predicate shapes of the menu, and proves on the code-shaped Simplify/_finish_apply rules that the merged tree denotes the two operations in sequence and that merging never raises; the REAL tree obtained by applying the two operations through the public apply() is projected and handed back to TLC, which evaluates its denotation on every target. The interval arithmetic of Slice.then is additionally PROVED for all naturals with TLAPS (spec/SliceThenProof.tla, tlapm SMT backend, 1 obligation) and tied by TLC to the specification's rule.",
        design_ref="§6 C05",
        note="bounded as C04; execution-level confirmation (real iteration engine rows) is part of the C01 check",
    ),
    "C12": dict(
        technique="TLA+ spec ExprGen (TLC exhaustive) + replay of every TLC state into iteration callable and SQLite + TLC validation of recorded answers (TraceExpr)",
        text="TLC enumerates every expression/predicate of the bounded grammar (all ranges with start,stop in -3..4 and steps +-1..3, n-ary AND/OR with 0..3 operands, six comparisons, four arithmetic functions) and checks in the model that the code-shaped SQL translation evaluated with SQLite arithmetic equals the reference meaning on all 64 rows; every TLC state is then replayed into the real iteration-engine callable and the real SQL translation executed by SQLite and compared with TLC's truth table; recorded answers for deeper random expressions are judged by TLC.",
        design_ref="§6 C12",
        note="bounded: depth<=1 wrappers quick / <=2 thorough over the atom menu; rows a,b in -3..4; SQLite 3.40 stands for 'a database'; trusted: TLC, Json module, build.py/project.py",
    ),
    "C13": dict(
        technique="TLA+ spec ExprGen invariants (TLC exhaustive) + real as_trivial/flatten/Selection/columns_required judged by TLC (TraceExpr)",
        text="TLC checks on every enumerated predicate that the code-shaped AsTrivial/FlattenAnd/NormSel/Req operators are sound w.r.t. the reference meaning; the answers of the REAL as_trivial(), flatten_logical_and(), Selection(p).predicate and columns_required for every enumerated state and for deeper random predicates are handed back to TLC, which judges them against its own truth table (soundness, not equality with the model).",
        design_ref="§6 C13",
        note="bounded as C12; required columns are demanded to be exactly the syntactically mentioned columns",
    ),
}

PENDING_REASON = "check not built yet in this round; the specification module for it is planned in DESIGN.md §11 (temporary entry, to be replaced by a claimed check)"


def main() -> None:
    checks = []
    for pid in ALL:
        if pid not in CHECKS:
            continue
        c = CHECKS[pid]
        checks.append(
            {
                "property_id": pid,
                "quick_cmd": f"./check {pid} --tier quick",
                "thorough_cmd": f"./check {pid} --tier thorough",
                "evidence_file": f"/verif/evidence/{pid}.json",
                "replay_cmd_template": f"./check {pid} --replay {{path}}",
                "engine": "tlc+replay",
                "level_claimed": {"category": "model_checking", "text": c["text"], "design_ref": c["design_ref"]},
                "level_note": c["note"],
                "technique": c["technique"],
            }
        )
    manifest = {
        "version": 1,
        "setup_cmd": "./setup.sh",
        "hooks": {
            "guard": "LSST_DAF_RELATION_VERIF",
            "enable": "no source hooks in /repo and no monkey-patching: every observation uses the public API or public extension points (RowIterable / Engine / Processor subclasses, user-defined RowFilter / Reordering operations evaluated through apply_custom_unary_operation, a pytest plugin under /verif for the repository's own tests); ./check exports LSST_DAF_RELATION_VERIF=1 only for uniformity",
            "baseline_off_cmd": "cd /repo && env -u LSST_DAF_RELATION_VERIF /venv/bin/python -m pytest -ra -q -p no:cacheprovider --timeout=900 --continue-on-collection-errors",
            "source_commits": [],
            "add_only": True,
        },
        "engines": [
            {"name": "tlc+replay", "path": "/verif/check", "serves_properties": sorted(CHECKS),
             "kind_free_text": "explicit TLA+ specification (spec/*.tla) model-checked by TLC 1.8; every TLC state replayed into the real library (binding A) and recorded real answers validated by TLC trace specs (binding B)"}
        ],
        "checks": checks,
        "notes": "See DESIGN.md. known_findings.json lists genuine defects (fixed / open).",
        "not_applicable": [{"property_id": p, "reason": PENDING_REASON} for p in ALL if p not in CHECKS],
    }
    (VERIF / "MANIFEST.json").write_text(json.dumps(manifest, indent=1))


if __name__ == "__main__":
    main()
