"""Family 'rand' — RANDOM POOL PROGRAMS judged by TLC (spec/TracePool.tla).

A seeded generator writes programs of 8-16 steps.  Every step builds a new
relation from ANY earlier member(s) through the public factories: unary
operations (a third of them with random preferred-engine options), chain, join
(plain, with explicit max_columns, or iteration-member.join(sql-member,
transfer=True)), transfers among one SQL engine and two iteration engines,
materializations, and "proc" - the tree a real Processor returned for an
earlier member, on which later steps keep building.  Members share leaves and
sub-trees.  Some members are then evaluated for real (Processor with SQLite
temp tables; both SQLite scan orders) and the recorded (steps, rows, projected
real tree) go to TLC, which computes the reference rows from the STEPS and
judges the observation under its own determinacy analysis of the real tree.

Serves C02 / C11 (SQL rows), C03 (options), C07 (processor), C01 (iteration
members), C08 (accepted => evaluates).  What the generator avoids (documented
contract or open findings): joins of members sharing a table (aliasing is the
user's job), materializations in the SQL engine above a transfer (F8 / F16),
preferred-engine options on a projection above a deduplication (F2), reuse of
calculated tags (F11).
"""
from __future__ import annotations

import os
import random
import time

from . import build, project, tracecheck
from .core import MachineryError, Part, merge_worker_outputs, parallel_replay, trim
from .fam_deep import has_ref, rexpr, rpred
from .fam_iter import full_tree
from .fam_multi import sql_mat_after_xfer
from .fam_sql import db, nested_compound
from .procs import make_processor

_st: dict = {}
LEAF_COLS = {"T1": ("a", "b", "c"), "T2": ("a", "d"), "T3": ("a", "b", "c"), "L": ("a", "b", "c")}
# relations the SQL engine makes itself: a statically empty one and the join identity
ENGINE_MADE = {"Z": ("a", "b", "c"), "I": ()}


def _world():
    if "w" not in _st:
        import sqlalchemy

        from lsst.daf.relation import iteration, sql

        conn, _tables, _ = db()
        md = sqlalchemy.MetaData()
        tables = {n: sqlalchemy.Table(f"rp_{n.lower()}", md, sqlalchemy.Column("rid", sqlalchemy.Integer, primary_key=True),
                                      *[sqlalchemy.Column(c, sqlalchemy.Integer) for c in LEAF_COLS[n]]) for n in ("T1", "T2", "T3")}
        md.create_all(conn)
        _st["w"] = (conn, tables, {"sql": sql.Engine(name="sql"), "it1": iteration.Engine(name="it1"), "it2": iteration.Engine(name="it2")})
    return _st["w"]


def _rrows(rng, cols, n_max=5):
    pool = [{c: rng.randint(0, 2) if c in ("a", "b") else rng.randint(-1, 1) for c in cols} for _ in range(4)]
    return [dict(rng.choice(pool)) for _ in range(rng.randint(0, n_max))]


class Member:
    __slots__ = ("rel", "cols", "leaves", "dedup", "xfer", "sorted_total", "depth", "chain")

    def __init__(self, rel, cols, leaves, dedup=False, xfer=False, sorted_total=False, depth=0, chain=False):
        self.rel, self.cols, self.leaves, self.dedup, self.xfer, self.sorted_total, self.depth = rel, set(cols), set(leaves), dedup, xfer, sorted_total, depth
        self.chain = chain

    @property
    def eng(self):
        return self.rel.engine.name


def _rop(rng, m: Member, fresh: list):
    """One random unary operation valid on member m (spec JSON form); None if nothing sensible."""
    cols = m.cols
    k = rng.random()
    if k < 0.15 and fresh and cols:
        e = rexpr(rng, cols, 2)
        if not has_ref(e):
            return None
        return {"o": "calc", "tag": fresh.pop(0), "e": e}
    if k < 0.3:
        r = rng.random()
        if r < 0.25 and len(cols) > 3:
            return {"o": "proj", "cols": sorted(c for c in cols if c in ("a", "b", "c"))}     # back to a leaf's columns
        if r < 0.5 and len(cols) > 1:
            drop = rng.choice(sorted(cols))
            return {"o": "proj", "cols": sorted(c for c in cols if c != drop)}               # hide exactly one column
        return {"o": "proj", "cols": sorted(c for c in cols if rng.random() < 0.75)}
    if k < 0.5:
        return {"o": "sel", "p": rpred(rng, cols, 2)}
    if k < 0.6:
        return {"o": "dedup"}
    cs = sorted(cols)
    rng.shuffle(cs)
    if k < 0.8 or not m.sorted_total:
        total = rng.random() < 0.75
        terms = [{"e": {"x": "ref", "c": c}, "asc": rng.random() < 0.6} for c in (cs if total else cs[: rng.randint(0, 2)])]
        return {"o": "sort", "terms": terms, "_total": total}
    a = rng.randint(0, 2)
    return {"o": "slice", "a": a, "b": rng.choice([-1, a, a + 1, a + 2, a + 3])}


REFUSALS = ("row order",)


def chain_with_empty_branch(rel) -> bool:
    """Matcher of open finding F19 (and of the second clause of F8 / F16): the tree contains a chain
    one of whose branches is statically empty - process() prunes it and rebuilds everything above."""
    from lsst.daf.relation import BinaryOperationRelation, MarkerRelation, UnaryOperationRelation
    from lsst.daf.relation import _operations as ops

    match rel:
        case UnaryOperationRelation(target=target):
            return chain_with_empty_branch(target)
        case BinaryOperationRelation(operation=operation, lhs=lhs, rhs=rhs):
            if isinstance(operation, ops.Chain) and (lhs.max_rows == 0 or rhs.max_rows == 0):
                return True
            return chain_with_empty_branch(lhs) or chain_with_empty_branch(rhs)
        case MarkerRelation(target=target):
            return chain_with_empty_branch(target)
    return False


def _documented_refusal(exc, opts=None) -> bool:
    name = type(exc).__name__
    if name == "RelationalAlgebraError" and any(s in str(exc) for s in REFUSALS):
        return True        # a sort that would be silently lost: documented refusal of the SQL engine
    if name == "EngineError" and opts and opts.get("require_preferred_engine") and not opts.get("transfer"):
        return True        # require_preferred_engine could not be honoured
    return False


def run_program(seed: int, out: dict):
    from lsst.daf.relation import LeafRelation, Predicate, sql
    from lsst.daf.relation import _operations as ops
    from lsst.daf.relation.iteration import RowSequence

    rng = random.Random(seed)
    conn, tables, eng = _world()
    cnt = out["counters"]
    env = {n: _rrows(rng, LEAF_COLS[n]) for n in LEAF_COLS}
    for n, t in tables.items():
        conn.execute(t.delete())
        if env[n]:
            conn.execute(t.insert(), [dict(r, rid=i + 1) for i, r in enumerate(env[n])])
    steps: list = []
    members: list[Member] = []
    case = {"seed": seed, "env": env, "steps": steps}

    def V(props, what, **kw):
        out["violations"].append({"properties": props, "family": "rand", "what": what, "case": case, **kw})

    def add_leaf(name):
        cols = LEAF_COLS[name]
        n = len(env[name])
        loose = rng.random() < 0.3
        if name == "L":
            rel = LeafRelation(eng["it1"], build.tags(cols), RowSequence(build.rows(env[name])), name="L",
                               min_rows=0 if loose else n, max_rows=None if loose else n)
        else:
            t = tables[name]
            rel = eng["sql"].make_leaf(build.tags(cols), sql.Payload(t, columns_available={build.tag(c): t.c[c] for c in cols}), name=name,
                                       min_rows=0 if loose else n, max_rows=None if loose else n)
        members.append(Member(rel, cols, {name}))
        steps.append({"k": "leaf", "name": name, "cols": list(cols)})

    for name in ("T1", "L", "T2", "T3"):
        add_leaf(name)
    n_leaves = 4
    if rng.random() < 0.35:
        # engine-made members: a doomed (statically empty) relation and the join identity
        env["Z"] = []
        env["I"] = [{}]
        members.append(Member(eng["sql"].make_doomed_relation(build.tags(ENGINE_MADE["Z"]), ["statically empty"], name="Z"), ENGINE_MADE["Z"], {"Z"}))
        steps.append({"k": "leaf", "name": "Z", "cols": list(ENGINE_MADE["Z"])})
        members.append(Member(eng["sql"].make_join_identity_relation(name="I"), (), {"I"}))
        steps.append({"k": "leaf", "name": "I", "cols": []})
        n_leaves = 6
    fresh = ["e", "f", "g", "h"]
    proc = make_processor(conn, eng["sql"])
    n_steps = rng.randint(8, 16)
    n_mat = 0
    try:
        tries = 0
        while len(steps) < n_leaves + n_steps and tries < 80:
            tries += 1
            # prefer recent members, so that programs get deep
            i = len(members) - 1 - min(int(rng.expovariate(0.5)), len(members) - 1)
            m = members[i]
            r = rng.random()
            try:
                if r < 0.55:
                    o = _rop(rng, m, fresh)
                    if o is None:
                        continue
                    total = o.pop("_total", False)
                    opts = {}
                    # trees that already span engines get preferred-engine requests more often (that is where backtracking acts)
                    if rng.random() < (0.6 if m.xfer else 0.2) and not (o["o"] == "proj" and m.dedup):
                        opts = {"preferred_engine": eng[rng.choice(["sql", "it1", "it2"])], "backtrack": rng.random() < 0.85,
                                "transfer": rng.random() < 0.35, "require_preferred_engine": rng.random() < 0.25}
                    try:
                        rel = build.unary_op(o).apply(m.rel, **opts)
                    except Exception as exc:  # noqa: BLE001
                        if _documented_refusal(exc, opts):
                            cnt["steps_refused"] = cnt.get("steps_refused", 0) + 1
                            if o["o"] == "calc":
                                fresh.insert(0, o["tag"])
                            continue
                        raise
                    cols = set(m.cols)
                    if o["o"] == "calc":
                        cols.add(o["tag"])
                    elif o["o"] == "proj":
                        cols = set(o["cols"])
                    st = (total if o["o"] == "sort" else m.sorted_total and o["o"] in ("sel", "slice", "calc"))
                    members.append(Member(rel, cols, m.leaves, m.dedup or o["o"] == "dedup", m.xfer or rel.engine is not m.rel.engine, st, m.depth + 1, m.chain))
                    steps.append({"k": "un", "i": i + 1, "op": o,
                                  "opts": {k: (v.name if hasattr(v, "name") else v) for k, v in opts.items()}})
                elif r < 0.65:
                    cands = [j for j, x in enumerate(members) if x.cols == m.cols and x.eng == m.eng]
                    j = rng.choice(cands)
                    try:
                        rel = m.rel.chain(members[j].rel)
                    except Exception as exc:  # noqa: BLE001
                        if _documented_refusal(exc):
                            cnt["steps_refused"] = cnt.get("steps_refused", 0) + 1
                            continue
                        raise
                    x = members[j]
                    members.append(Member(rel, m.cols, m.leaves | x.leaves, m.dedup or x.dedup, m.xfer or x.xfer, False, max(m.depth, x.depth) + 1, True))
                    steps.append({"k": "chain", "i": i + 1, "j": j + 1})
                elif r < (0.85 if m.eng != "sql" else 0.78):
                    cands = [j for j, x in enumerate(members) if x.eng == "sql" and not (x.leaves & m.leaves)]
                    if not cands:
                        continue
                    j = rng.choice(cands)
                    x = members[j]
                    p = {"p": "lit", "v": True} if rng.random() < 0.6 else rpred(rng, m.cols | x.cols, 1)
                    common = sorted(m.cols & x.cols)
                    hasmx = bool(common) and m.eng == "sql" and rng.random() < 0.25
                    mx = [c for c in common if rng.random() < 0.5] if hasmx else []
                    try:
                        if hasmx:
                            rel = ops.Join(build.pred(p), max_columns=frozenset(build.tags(mx))).apply(m.rel, x.rel)
                        elif m.eng == "sql" and rng.random() < 0.2:
                            # the same join with the LEFT operand held fixed and the right one as the target
                            rel = ops.Join(build.pred(p)).partial(m.rel, is_lhs=True).apply(x.rel)
                        elif m.eng == "sql":
                            rel = m.rel.join(x.rel, None if p == {"p": "lit", "v": True} else build.pred(p))
                        else:
                            # an iteration-engine member joined to a SQL member: the join prefers the SQL engine
                            rel = m.rel.join(x.rel, None if p == {"p": "lit", "v": True} else build.pred(p), transfer=True)
                    except Exception as exc:  # noqa: BLE001
                        if _documented_refusal(exc):
                            cnt["steps_refused"] = cnt.get("steps_refused", 0) + 1
                            continue
                        raise
                    members.append(Member(rel, m.cols | x.cols, m.leaves | x.leaves, m.dedup or x.dedup, m.xfer or x.xfer or m.eng != "sql", False,
                                          max(m.depth, x.depth) + 1, m.chain or x.chain))
                    steps.append({"k": "join", "i": i + 1, "j": j + 1, "p": p, "hasmx": hasmx, "mx": mx})
                elif r < 0.9:
                    dest = rng.choice([e for e in ("sql", "it1", "it2") if e != m.eng])
                    try:
                        rel = m.rel.transferred_to(eng[dest])
                    except Exception as exc:  # noqa: BLE001
                        if _documented_refusal(exc):
                            continue
                        raise
                    members.append(Member(rel, m.cols, m.leaves, m.dedup, True, m.sorted_total, m.depth + 1, m.chain))
                    steps.append({"k": "xfer", "i": i + 1, "dest": dest})
                elif r < 0.95:
                    if n_mat >= 2 or (m.eng == "sql" and (m.xfer or m.chain)):
                        continue          # SQL materialization above a transfer / a chain process() may prune: open findings F8 / F16
                    n_mat += 1
                    try:
                        rel = m.rel.materialized(f"m{n_mat}")
                    except Exception as exc:  # noqa: BLE001
                        if _documented_refusal(exc):
                            continue
                        raise
                    members.append(Member(rel, m.cols, m.leaves, m.dedup, m.xfer, m.sorted_total, m.depth + 1, m.chain))
                    steps.append({"k": "mat", "i": i + 1, "name": f"m{n_mat}"})
                else:
                    if not m.xfer and n_mat == 0:
                        continue          # nothing for a Processor to do
                    rel = proc.process(m.rel)
                    members.append(Member(rel, m.cols, m.leaves, m.dedup, m.xfer, m.sorted_total, m.depth + 1, m.chain))
                    steps.append({"k": "proc", "i": i + 1})
            except Exception as exc:  # noqa: BLE001
                if "syntax error" in str(exc) and (nested_compound(project.tree(m.rel)) or ("UNION" in str(exc) and "(SELECT" in str(exc))):
                    cnt["sqlite_nested_compound_skipped"] = cnt.get("sqlite_nested_compound_skipped", 0) + 1
                    continue
                if type(exc).__name__ == "RelationalAlgebraError" and "will not preserve row order" in str(exc) and chain_with_empty_branch(m.rel):
                    out["known"]["F19"] = out["known"].get("F19", 0) + 1
                    continue
                V(["C08", "C03", "C02"], f"a valid step of a random pool program raised {type(exc).__name__}: {str(exc)[:300]}", on_member=i + 1)
                return None
        # ---- observations: the last member and two of the deeper ones
        deep = sorted(range(n_leaves, len(members)), key=lambda k: -members[k].depth)
        chosen = []
        for k in [len(members) - 1] + deep[:6]:
            if k >= n_leaves and k not in chosen:
                chosen.append(k)
        chosen = chosen[:3]
        obs = []
        for k in chosen:
            m = members[k]
            try:
                hash(m.rel)
            except TypeError as exc:
                V(["C09"], f"a relation built by the factories is not hashable: {exc}")
            tree = full_tree(m.rel)
            res = []
            try:
                for reverse in (False, True):
                    conn.exec_driver_sql(f"PRAGMA reverse_unordered_selects = {'ON' if reverse else 'OFF'}")
                    processed = proc.process(m.rel)
                    if isinstance(processed.engine, sql.Engine):
                        res.append(project.rows(proc.evaluate(processed)))
                    else:
                        res.append(project.rows(processed.engine.execute(processed)))
            except Exception as exc:  # noqa: BLE001
                msg = str(exc)
                if "syntax error" in msg and (nested_compound(project.tree(m.rel)) or ("UNION" in msg and "(SELECT" in msg)):
                    # SQLite cannot parse the parenthesised nested compound SELECT that SQLAlchemy renders for a chain
                    # whose operand is a bare chain; process() may produce such a chain even when the tree as built
                    # has none (temporary tables replace transfers)
                    cnt["sqlite_nested_compound_skipped"] = cnt.get("sqlite_nested_compound_skipped", 0) + 1
                    continue
                if type(exc).__name__ in ("EngineError", "RelationalAlgebraError") and sql_mat_after_xfer(project.tree(m.rel)) and (
                        "Cannot persist materialization" in msg or "will not preserve row order" in msg):
                    out["known"]["F8"] = out["known"].get("F8", 0) + 1
                    continue
                if type(exc).__name__ == "RelationalAlgebraError" and "will not preserve row order" in msg and chain_with_empty_branch(m.rel):
                    # open finding F19: process() pruned a statically empty chain branch, which un-buried a sort
                    out["known"]["F19"] = out["known"].get("F19", 0) + 1
                    continue
                V(["C08", "C07", "C02"], f"evaluating member {k + 1} of a random pool program raised {type(exc).__name__}: {msg[:300]}", member=k + 1)
                continue
            finally:
                conn.exec_driver_sql("PRAGMA reverse_unordered_selects = OFF")
            obs.append({"m": k + 1, "rowsf": res[0], "rowsr": res[1], "tree": tree})
        if not obs:
            return None
        jsteps = [{k: v for k, v in s.items() if k not in ("opts", "dest", "name") or s["k"] == "leaf"} for s in steps]
        return {"env": env, "steps": jsteps, "obs": obs, "case": case}
    finally:
        proc.cleanup()


def worker(seeds, ctx):
    out = {"n": 0, "nontrivial": 0, "violations": [], "counters": {}, "samples": [], "events": [], "n_drift": 0, "drift": [], "known": {}}
    for s in seeds:
        out["n"] += 1
        ev = run_program(int(s), out)
        if ev is None:
            continue
        out["events"].append(ev)
        kinds = {st["k"] for st in ev["steps"]}
        if kinds & {"join", "chain"} and kinds & {"xfer", "proc", "mat"}:
            out["nontrivial"] += 1
        if len(out["samples"]) < 1:
            out["samples"].append({"steps": ev["case"]["steps"][4:10], "observed_members": [o["m"] for o in ev["obs"]]})
        if len(out["violations"]) > 60:
            out["violations"] = trim(out["violations"])
    return out


CLAUSE_PROPS = {"wf": ["C14", "C03"], "cols": ["C06", "C03", "C02"], "bag": ["C02", "C03", "C07"], "list": ["C11", "C01", "C03", "C07"]}
CLAUSE_TEXT = {"wf": "the real tree is not well-formed", "cols": "tree columns / row keys differ from the columns of the naive application",
               "bag": "rows differ as a multiset from the naive semantics of the recorded steps although the multiset is determined",
               "list": "rows differ as a list from the naive semantics of the recorded steps although the order is determined"}


def run(tier: str, seed: int) -> list[Part]:
    t0 = time.time()
    n = 1500 if tier == "quick" else 40000
    part = Part(name="random-pool-programs", cfg="TracePool", states=1, transitions=1, exhaustive=False)
    seeds = [str(seed * 15485863 + 31 * i + 7) for i in range(n)]
    outs = parallel_replay(worker, seeds, chunk=50)
    merge_worker_outputs(part, outs)
    events = [ev for o in outs for ev in o.get("events", [])]
    cases = [ev.pop("case") for ev in events]
    verdicts = tracecheck.validate("TracePool.tla", events, batch=1500, heap="2g")
    part.traces = sum(len(ev["obs"]) for ev in events)
    part.replayed = 0
    part.counters["programs"] = len(events)
    part.counters["observations"] = part.traces
    part.counters["observations_bag_determined"] = tracecheck.LAST_COUNTS.get("TD", 0)
    for v in verdicts:
        ev = v["event"]
        o = ev["obs"][v["obs"] - 1]
        for clause, ok in v["v"].items():
            if clause in ("det", "ldet") or ok:
                continue
            part.violations.append({"properties": CLAUSE_PROPS[clause], "family": "rand", "case": cases[v["id"]],
                                    "what": f"TLC (TracePool) rejects member {v['m']} of a random pool program: {CLAUSE_TEXT[clause]}",
                                    "observed": {"rows_scan_forward": o["rowsf"], "rows_scan_reverse": o["rowsr"]}, "member": v["m"]})
    part.violations = trim(part.violations, 12)
    part.wall_s = time.time() - t0
    return [part]
