"""Which families decide which property; known-finding reporting; replay."""
from __future__ import annotations

import json

from . import fam_idjoin, fam_deep, fam_expr, fam_proof, fam_iter, fam_multi, fam_names, fam_pairs, fam_pool, fam_proc, fam_rand, fam_repo, fam_sql
from .core import Part, open_findings

REGISTRY = {
    "C06": {"families": [fam_iter.run, fam_sql.run, fam_multi.run, fam_proof.run], "assumptions": ["leaf declarations exact / loose / zero-lower / unbounded, always consistent with the actual row count"]},
    "C14": {"families": [fam_iter.run, fam_sql.run, fam_multi.run, fam_repo.run, fam_idjoin.run], "assumptions": []},
    "C16": {"families": [fam_iter.run, fam_sql.run], "assumptions": ["the executor used in the replay really executes the relation in its engine"]},
    "C18": {"families": [fam_iter.run], "assumptions": ["leaf payloads are harness RowIterable subclasses counting __iter__ calls (public extension point)"]},
    "C19": {"families": [fam_names.run], "assumptions": [
        "uuid4 draws are fresh (the model shows this assumption is necessary: the counter alone does not give uniqueness)"]},
    "C20": {"families": [fam_iter.run, fam_sql.run, fam_multi.run], "assumptions": ["when a request is ill-formed in two ways (engine and columns) either documented class is accepted"]},
    "C12": {"families": [fam_expr.run], "assumptions": [
        "SQLite 3.40 (the only database available offline) stands for 'a database'",
        "rows range over a,b in -3..4 (exhaustive part) ; deeper random expressions use the same rows"]},
    "C01": {"families": [fam_iter.run, fam_deep.run], "assumptions": [
        "leaf contents: 14 (quick) / all 85 (thorough) row lists of <=3 rows over a,b in 0..1, zero-column and key/non-key variants",
        "non-key columns are accompanied by the key columns that determine them (documented ColumnTag.is_key contract)",
        "calculated tags are globally fresh (column tags are absolute identifiers)"]},
    "C02": {"families": [fam_sql.run, fam_deep.run, fam_rand.run], "assumptions": [
        "SQLite 3.40 in memory is the database; both settings of PRAGMA reverse_unordered_selects stand for 'both legal physical row orders'",
        "bag equality is demanded exactly when TLC's DetTree says every slice sits under a total order (or has a trivial window) on this data",
        "SQLite cannot parse the parenthesised nested compound selects SQLAlchemy renders for a chain whose operand is a bare chain: such states are compiled but not executed (counted in evidence)"]},
    "C07": {"families": [fam_proc.run, fam_multi.run, fam_rand.run], "assumptions": [
        "the Processor used is the harness's real one (SQLite temp tables <-> RowSequence); its hooks evaluate the source for real, so 'evaluable by the source engine on its own' is observed, not assumed"]},
    "C09": {"families": [fam_pool.run, fam_multi.run, fam_rand.run], "assumptions": [
        "histories beyond depth 2-3 are sampled by TLC's simulation mode (seeded by VERIF_SEED), not enumerated"]},
    "C10": {"families": [fam_proc.run], "assumptions": [
        "the leaf below the materializations is a counting lazy payload (iteration-sourced trees); at most one iteration of it over a whole history is the observable form of 'evaluated at most once'"]},
    "C08": {"families": [fam_sql.run, fam_iter.run, fam_rand.run], "assumptions": ["each occurrence of a leaf table in one query gets its own alias (as a user must do for self-joins)"]},
    "C11": {"families": [fam_sql.run, fam_deep.run, fam_rand.run], "assumptions": ["list equality is demanded exactly when TLC's OrdTree says the outermost level carries a sort that totally orders its rows"]},
    "C17": {"families": [fam_sql.run, fam_repo.run], "assumptions": []},
    "C03": {"families": [fam_multi.run, fam_deep.run, fam_rand.run, fam_idjoin.run], "assumptions": [
        "content is compared after processing with a real SQLite<->iteration Processor; list equality when TLC's ListDet holds, bag equality when BagDet holds",
        "with transfer=True and a fully successful backtrack the documented behaviour (no transfer added) is accepted"]},
    "C15": {"families": [fam_multi.run], "assumptions": []},
    "C04": {"families": [fam_pairs.run], "assumptions": [
        "targets: every row list of length <=3 over a,b in 0..1 (85 targets); slices: one-column targets of length 0..6",
        "tag reuse (a calculated tag that already exists upstream) is outside the documented contract and not generated"]},
    "C05": {"families": [fam_pairs.run, fam_iter.run, fam_proof.run], "assumptions": [
        "targets: every row list of length <=3 over a,b in 0..1; all slice pairs with start 0..4, stop None or start..6 on one-column targets of length 0..6"]},
    "C13": {"families": [fam_expr.run], "assumptions": ["rows range over a,b in -3..4"]},
}


def known_lines(prop: str, parts: list[Part]) -> list[str]:
    lines = []
    for f in open_findings(prop):
        n = sum(p.known.get(f["id"], 0) for p in parts)
        if n:
            lines.append(f"KNOWN-FINDING: property={prop} {f['id']} {f['summary']} (seen {n}x)")
    return lines


def replay(prop: str, path: str) -> int:
    v = json.loads(open(path).read())
    fam = v.get("family")
    if fam == "expr":
        case = v["case"]
        ev = fam_expr.observe(case["kind"], case["e"], case["lo"], case["hi"])
        print(json.dumps({"case": case, "observed": {k: ev[k] for k in ("triv", "flat", "norm", "req", "notes") if k in ev}}, indent=1))
        print("recorded violation:", v["what"])
        return 1
    print("no replayer for", fam)
    return 2
