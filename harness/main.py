"""Entry point:  ./check <property> [--tier quick|thorough] [--replay <path>]"""
from __future__ import annotations

import argparse
import os
import sys
import time
import traceback

from .core import MachineryError, finish, seed_from_env
from .tlc import TlcFailure

ASSUME_COMMON = [
    "TLC 1.8.0 and the CommunityModules Json module evaluate the specification correctly",
    "harness/build.py and harness/project.py translate faithfully between abstract syntax and real objects",
]


def families(prop: str):
    from . import registry

    return registry.REGISTRY[prop]


def main(argv=None) -> int:
    ap = argparse.ArgumentParser()
    ap.add_argument("prop")
    ap.add_argument("--tier", default=os.environ.get("VERIF_TIER", "quick"), choices=["quick", "thorough"])
    ap.add_argument("--replay", default=None)
    args = ap.parse_args(argv)
    os.environ.setdefault("LSST_DAF_RELATION_VERIF", "1")
    seed = seed_from_env()
    t0 = time.time()
    try:
        from . import registry

        if args.replay:
            return registry.replay(args.prop, args.replay)
        entry = registry.REGISTRY[args.prop]
        parts = []
        for fam in entry["families"]:
            os.environ["VERIF_FOCUS"] = args.prop      # families may skip work that cannot bear on this property
            parts.extend(fam(args.tier, seed))
        known_lines = registry.known_lines(args.prop, parts)
        return finish(args.prop, args.tier, seed, parts, t0, ASSUME_COMMON + entry.get("assumptions", []), known_lines)
    except (MachineryError, TlcFailure) as exc:
        print(f"MACHINERY-FAILURE property={args.prop}: {exc}", file=sys.stderr)
        return 2
    except Exception:  # noqa: BLE001
        traceback.print_exc()
        print(f"MACHINERY-FAILURE property={args.prop}: unexpected exception", file=sys.stderr)
        return 2


if __name__ == "__main__":
    sys.exit(main())
