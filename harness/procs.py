"""A real Processor for SQLite <-> iteration engines, with a hook log.

transfer(source, destination, materialize_as): evaluates `source` in its own
engine (SQL on the per-process SQLite connection, or iteration execute) and
builds a payload for the destination engine (RowSequence, or a temp table).
materialize(target, name): likewise, in the target's own engine.
Every hook call is logged with the facts property C07 talks about.
"""
from __future__ import annotations

import itertools

from . import build

_counter = itertools.count()


def make_processor(conn, sql_engine, lazy_transfers: bool = False):
    import sqlalchemy

    from lsst.daf.relation import Processor, iteration, sql

    class RealProcessor(Processor):
        def __init__(self):
            self.log = []  # dicts
            self.temp_tables = []
            self.md = sqlalchemy.MetaData()

        # ---- evaluation in one engine
        def evaluate(self, rel, ordered=True):
            if isinstance(rel.engine, sql.Engine):
                executable = rel.engine.to_executable(rel)
                names = [(t, t.qualified_name) for t in rel.columns]
                return [{t: row[n] for t, n in names} for row in conn.execute(executable).mappings()]
            return [dict(r) for r in rel.engine.execute(rel)]

        def payload_for(self, engine, columns, rows):
            if isinstance(engine, sql.Engine):
                name = f"tmp_{next(_counter)}"
                cols = sorted(columns, key=lambda t: t.qualified_name)
                table = sqlalchemy.Table(
                    name, self.md, sqlalchemy.Column("rid", sqlalchemy.Integer, primary_key=True),
                    *[sqlalchemy.Column(t.qualified_name, sqlalchemy.Integer) for t in cols], prefixes=["TEMPORARY"])
                table.create(conn)
                self.temp_tables.append(table)
                if rows:
                    conn.execute(table.insert(), [dict({t.qualified_name: r[t] for t in cols}, rid=i + 1) for i, r in enumerate(rows)])
                return sql.Payload(table, columns_available={t: table.c[t.qualified_name] for t in cols})
            return iteration.RowSequence(rows)

        def _facts(self, kind, rel):
            return {"hook": kind, "rel": str(rel), "max_rows": rel.max_rows, "join_identity": bool(rel.is_join_identity),
                    "error": None}

        def transfer(self, source, destination, materialize_as):
            entry = self._facts("transfer", source)
            entry["materialize_as"] = materialize_as
            self.log.append(entry)
            if (lazy_transfers and materialize_as is None and not isinstance(destination, sql.Engine)
                    and not isinstance(source.engine, sql.Engine)):
                # a plain transfer need not persist anything: hand over a lazy payload that
                # re-evaluates the source on every iteration (only a materialization caches)
                class LazyRows(iteration.RowIterable):
                    def __iter__(self_inner):
                        return iter([dict(r) for r in source.engine.execute(source)])

                return LazyRows()
            try:
                rows = self.evaluate(source)
            except Exception as exc:  # noqa: BLE001
                entry["error"] = f"{type(exc).__name__}: {str(exc)[:200]}"
                raise
            return self.payload_for(destination, source.columns, rows)

        def materialize(self, target, name):
            entry = self._facts("materialize", target)
            entry["name"] = name
            self.log.append(entry)
            try:
                rows = self.evaluate(target)
            except Exception as exc:  # noqa: BLE001
                entry["error"] = f"{type(exc).__name__}: {str(exc)[:200]}"
                raise
            return self.payload_for(target.engine, target.columns, rows)

        def cleanup(self):
            for t in self.temp_tables:
                try:
                    t.drop(conn)
                except Exception:  # noqa: BLE001
                    pass
            self.temp_tables.clear()

    return RealProcessor()
