"""Run TLC on a specification/configuration of /verif/spec and collect its results.

* `run_tlc` runs the model checker (16 workers by default) in a scratch
  directory, captures its output, parses the summary (states generated,
  distinct states, depth), the invariant that was violated (if any), and the
  state lines emitted by the specs' always-true ``EmitState`` invariants
  (``PrintT(<<"ST", ToJson(..)>>)``; Binding A of DESIGN.md).
* emitted states are cached under /verif/.cache keyed by the SHA-256 of every
  module under spec/, the configuration and the TLC version: the dump depends
  only on the specification, never on /repo, so reusing it is sound.

Exit-code policy lives in the callers; this module raises `TlcFailure` for
machinery problems (TLC crashed, unparsable output).
"""
from __future__ import annotations

import gzip
import hashlib
import json
import os
import re
import shutil
import subprocess
import tempfile
import time
from dataclasses import dataclass, field
from pathlib import Path
from typing import Iterator

VERIF = Path(__file__).resolve().parent.parent
SPEC = VERIF / "spec"
CACHE = VERIF / ".cache"
JAR = "/opt/veriftools/tla/tla2tools.jar"
DEPS = "/opt/veriftools/tla/CommunityModules-deps.jar"
TLC_VERSION_TAG = "tlc-1.8.0-2026.09.04"


class TlcFailure(RuntimeError):
    """TLC could not be run or its output could not be understood."""


@dataclass
class TlcResult:
    cfg: str
    module: str
    generated: int = 0
    distinct: int = 0
    depth: int = 0
    wall_s: float = 0.0
    violated: str | None = None  # name of violated invariant / property, if any
    error_text: str = ""
    n_emitted: int = 0
    dump: Path | None = None  # gz file with one JSON state per line
    cached: bool = False
    coverage: dict = field(default_factory=dict)
    counterexample: list[str] = field(default_factory=list)

    def states(self) -> Iterator[dict]:
        if self.dump is None:
            return
        with gzip.open(self.dump, "rt") as f:
            for line in f:
                yield json.loads(line)

    def raw_lines(self) -> Iterator[str]:
        if self.dump is None:
            return
        with gzip.open(self.dump, "rt") as f:
            for line in f:
                yield line


_ST_RE = re.compile(r'^<<"ST", "(.*)">>$')


def _unescape(s: str) -> str:
    # TLC prints a TLA+ string: backslash and double quote are escaped.
    out = []
    i = 0
    n = len(s)
    while i < n:
        ch = s[i]
        if ch == "\\" and i + 1 < n:
            nx = s[i + 1]
            if nx == "n":
                out.append("\n")
            elif nx == "t":
                out.append("\t")
            else:
                out.append(nx)
            i += 2
        else:
            out.append(ch)
            i += 1
    return "".join(out)


def module_closure(module: str) -> list[Path]:
    """The module file and every module of spec/ it (transitively) EXTENDS / INSTANCEs."""
    seen: dict[str, Path] = {}
    todo = [module[:-4] if module.endswith(".tla") else module]
    while todo:
        name = todo.pop()
        path = SPEC / f"{name}.tla"
        if name in seen or not path.exists():
            continue
        seen[name] = path
        text = path.read_text()
        for m in re.finditer(r"^\s*EXTENDS\s+(.+)$", text, re.M):
            todo.extend(x.strip() for x in m.group(1).split(","))
        for m in re.finditer(r"INSTANCE\s+(\w+)", text):
            todo.append(m.group(1))
    return [seen[k] for k in sorted(seen)]


def spec_hash(cfg: str, extra: str = "", module: str | None = None) -> str:
    h = hashlib.sha256()
    files = module_closure(module) if module else sorted(SPEC.glob("*.tla"))
    for p in files:
        h.update(p.name.encode())
        h.update(p.read_bytes())
    h.update((SPEC / cfg).read_bytes())
    h.update(TLC_VERSION_TAG.encode())
    h.update(extra.encode())
    return h.hexdigest()[:24]


def java_cmd(heap: str = "3g") -> list[str]:
    return [
        "java",
        f"-Xms{heap}",
        f"-Xmx{heap}",
        "-XX:+UseParallelGC",
        "-XX:ParallelGCThreads=4",
        "-cp",
        f"{JAR}:{DEPS}",
        "tlc2.TLC",
    ]


def run_tlc(
    module: str,
    cfg: str,
    *,
    workers: int = 16,
    heap: str = "3g",
    timeout: int = 3600,
    use_cache: bool = True,
    simulate: str | None = None,
    seed: int | None = None,
    env: dict | None = None,
    expect_violation: bool = False,
    extra_args: list[str] | None = None,
    keep_output: Path | None = None,
) -> TlcResult:
    """Run TLC; return parsed result.  Emitted states land in a gz dump."""
    key = spec_hash(cfg, module=module, extra=f"{module}|{simulate}|{seed if simulate else ''}|{sorted((env or {}).items())}")
    CACHE.mkdir(exist_ok=True)
    meta_path = CACHE / f"{key}.json"
    dump_path = CACHE / f"{key}.ndjson.gz"
    if use_cache and meta_path.exists() and dump_path.exists():
        meta = json.loads(meta_path.read_text())
        res = TlcResult(**{k: v for k, v in meta.items() if k not in ("dump",)})
        res.dump = dump_path
        res.cached = True
        return res

    scratch = Path(tempfile.mkdtemp(prefix="verif-tlc-"))
    try:
        out_path = scratch / "tlc.out"
        cmd = java_cmd(heap) + [
            "-workers",
            str(workers),
            "-metadir",
            str(scratch / "meta"),
            "-noGenerateSpecTE",
            "-config",
            cfg,
        ]
        if simulate:
            cmd += ["-simulate", simulate]
        if seed is not None and simulate:
            cmd += ["-seed", str(seed)]
        if extra_args:
            cmd += extra_args
        cmd += [module]
        t0 = time.time()
        full_env = dict(os.environ)
        if env:
            full_env.update(env)
        with open(out_path, "wb") as out:
            try:
                proc = subprocess.run(
                    cmd, cwd=SPEC, stdout=out, stderr=subprocess.STDOUT, timeout=timeout, env=full_env
                )
            except subprocess.TimeoutExpired:
                raise TlcFailure(f"TLC timed out after {timeout}s on {cfg}")
        wall = time.time() - t0
        res = TlcResult(cfg=cfg, module=module, wall_s=round(wall, 2))
        tmp_dump = scratch / "dump.ndjson.gz"
        other: list[str] = []
        n = 0
        with open(out_path, "r", errors="replace") as f, gzip.open(tmp_dump, "wt", compresslevel=1) as g:
            for line in f:
                line = line.rstrip("\n")
                m = _ST_RE.match(line)
                if m:
                    g.write(_unescape(m.group(1)))
                    g.write("\n")
                    n += 1
                else:
                    if len(other) < 20000:
                        other.append(line)
        res.n_emitted = n
        text = "\n".join(other)
        m = re.search(r"(\d[\d,]*) states generated, (\d[\d,]*) distinct states found", text)
        if m:
            res.generated = int(m.group(1).replace(",", ""))
            res.distinct = int(m.group(2).replace(",", ""))
        else:
            m = re.search(r"The number of states generated: (\d+)", text)      # simulation mode
            if m:
                res.generated = int(m.group(1))
                res.distinct = n
        m = re.search(r"The depth of the complete state graph search is (\d+)", text)
        if m:
            res.depth = int(m.group(1))
        m = re.search(r"Error: Invariant (\S+) is violated", text)
        if m:
            res.violated = m.group(1)
        else:
            m = re.search(r"Error: Action property (\S+) is violated", text)
            if m:
                res.violated = m.group(1)
            elif re.search(r"Error: Temporal properties were violated", text):
                res.violated = "temporal"
        if res.violated:
            idx = text.find("Error:")
            res.error_text = text[idx : idx + 6000]
        elif "Error:" in text or proc.returncode not in (0,):
            idx = text.find("Error:")
            res.error_text = text[idx : idx + 6000] if idx >= 0 else text[-3000:]
            if keep_output:
                shutil.copy(out_path, keep_output)
            raise TlcFailure(f"TLC failed on {cfg} (exit {proc.returncode}):\n{res.error_text}")
        if keep_output:
            shutil.copy(out_path, keep_output)
        if res.violated and not expect_violation:
            # callers decide what to do; do not cache
            res.dump = None
            return res
        shutil.move(str(tmp_dump), dump_path)
        res.dump = dump_path
        meta = {k: v for k, v in res.__dict__.items() if k != "dump"}
        meta_path.write_text(json.dumps(meta))
        return res
    finally:
        shutil.rmtree(scratch, ignore_errors=True)


def sany(module: str) -> None:
    cmd = ["java", "-cp", f"{JAR}:{DEPS}", "tla2sany.SANY", module]
    p = subprocess.run(cmd, cwd=SPEC, capture_output=True, text=True)
    if p.returncode != 0 or "*** Errors" in p.stdout or "Could not parse" in p.stdout:
        raise TlcFailure(f"SANY rejects {module}:\n{p.stdout[-3000:]}")
