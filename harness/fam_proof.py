"""Family 'proof' — the unbounded arithmetic core of C05 for slices, proved by
TLAPS (tlapm, SMT backend): merging two slices with Slice.then selects exactly
the index window of applying them in sequence, for EVERY target length and all
bounds (spec/SliceThenProof.tla).  TLC ties the proved definitions to the
specification's rule RA_Ops!SliceThen (spec/SliceThenEq.tla, all bounds <= 7);
the OpPairs replay ties that rule to the real Slice.then.
"""
from __future__ import annotations

import re
import shutil
import subprocess
import tempfile
import time
from pathlib import Path

from .core import MachineryError, Part
from .tlc import SPEC, run_tlc


def run(tier: str, seed: int) -> list[Part]:
    t0 = time.time()
    part = Part(name="tlaps:SliceThenProof", cfg="tlapm", states=1, transitions=1)
    tmp = Path(tempfile.mkdtemp(prefix="verif-tlaps-"))
    try:
        shutil.copy(SPEC / "SliceThenProof.tla", tmp / "SliceThenProof.tla")
        try:
            p = subprocess.run(["tlapm", "--toolbox", "0", "0", "SliceThenProof.tla"], cwd=tmp, capture_output=True, text=True, timeout=900)
        except (FileNotFoundError, subprocess.TimeoutExpired) as exc:
            raise MachineryError(f"tlapm could not be run: {exc}")
        out = p.stdout + p.stderr
        m = re.search(r"All (\d+) obligations? proved", out)
        if not m:
            raise MachineryError("tlapm did not prove SliceThenProof:\n" + out[-1500:])
        n = int(m.group(1))
        part.counters["obligations"] = n
        part.counters["discharged"] = n
        part.nontrivial = n
        part.traces = 0
        part.samples.append({"theorem": "SliceThenWindow", "backend": "SMT", "obligations_proved": n,
                             "statement": "for all n, a1, a2 in Nat and valid stops b1, b2: the window of then(a1,b1;a2,b2) on a target of length n "
                                          "equals the window of slicing twice, and the merged slice is valid"})
    finally:
        shutil.rmtree(tmp, ignore_errors=True)
    part.wall_s = time.time() - t0
    t1 = time.time()
    res = run_tlc("SliceThenEq.tla", "SliceThenEq.cfg", workers=4, heap="2g")
    if res.violated:
        raise MachineryError("the proved definitions and RA_Ops!SliceThen disagree: " + res.error_text[:500])
    p2 = Part(name="tlc:SliceThenEq", cfg="SliceThenEq.cfg", states=max(res.distinct, 1), transitions=max(res.generated, 1))
    p2.notes.append("TLC: the TLAPS-proved ThenA/ThenB equal RA_Ops!SliceThen on all valid slice pairs with bounds <= 7")
    p2.wall_s = time.time() - t1
    return [part, p2]
