"""Family 'proof' — the unbounded arithmetic core of C05 for slices, proved by
TLAPS (tlapm, SMT backend): merging two slices with Slice.then selects exactly
the index window of applying them in sequence, for EVERY target length and all
bounds (spec/SliceThenProof.tla).  TLC ties the proved definitions to the
specification's rule RA_Ops!SliceThen (spec/SliceThenEq.tla, all bounds <= 7);
the OpPairs replay ties that rule to the real Slice.then.
"""
from __future__ import annotations

import re
import shutil
import subprocess
import tempfile
import time
from pathlib import Path

from .core import MachineryError, Part
from .tlc import SPEC, run_tlc


def _tlapm(tmp: Path, module: str) -> tuple[bool, str]:
    """Run tlapm on one module; (all obligations proved?, output).  Back ends get generous time limits
    (SMTT(120) in the proofs) and the whole run is retried: on a loaded machine a solver may be starved."""
    out = ""
    for attempt in range(3):
        try:
            p = subprocess.run(["tlapm", "--toolbox", "0", "0", "--stretch", "4", f"{module}.tla"], cwd=tmp, capture_output=True, text=True, timeout=1200)
        except FileNotFoundError as exc:
            return False, f"tlapm not found: {exc}"
        except subprocess.TimeoutExpired:
            out = "tlapm timed out"
            continue
        out = p.stdout + p.stderr
        m = re.search(r"All (\d+) obligations? proved", out)
        if m:
            return True, out
        shutil.rmtree(tmp / ".tlacache", ignore_errors=True)
    return False, out


def run(tier: str, seed: int) -> list[Part]:
    t0 = time.time()
    part = Part(name="tlaps:SliceThenProof", cfg="tlapm", states=1, transitions=1)
    tmp = Path(tempfile.mkdtemp(prefix="verif-tlaps-"))
    try:
        shutil.copy(SPEC / "SliceThenProof.tla", tmp / "SliceThenProof.tla")
        shutil.copy(SPEC / "TLAPS.tla", tmp / "TLAPS.tla")
        ok, out = _tlapm(tmp, "SliceThenProof")
        if ok:
            n = int(re.search(r"All (\d+) obligations? proved", out).group(1))
            part.counters["obligations"] = n
            part.counters["discharged"] = n
            part.nontrivial = n
            part.samples.append({"theorem": "SliceThenWindow", "backend": "SMT", "obligations_proved": n,
                                 "statement": "for all n, a1, a2 in Nat and valid stops b1, b2: the window of then(a1,b1;a2,b2) on a target of length n "
                                              "equals the window of slicing twice, and the merged slice is valid"})
            part.samples.append({"theorem": "SliceBoundsTruthful", "backend": "SMT",
                                 "statement": "for all n, a, tmin in Nat, valid stop b and tmax (-1: unbounded) with tmin <= n <= tmax: the number of rows "
                                              "a slice [a:b] selects from n rows lies within Slice.applied_min_rows / applied_max_rows (C06)"})
            # non-vacuity: the same obligations must FAIL for wrong formulas (the unclamped pinned-commit then of F6; a min bound of at least 1)
            src = (SPEC / "SliceThenProof.tla").read_text()
            for label, old_txt, new_txt in (("unclamped_then", "IN IF nt # -1 /\\ nt < ns THEN nt ELSE ns", "IN ns"),
                                            ("min_bound_one", "IN Max2(stop - a, 0)\nSliceMax", "IN Max2(stop - a, 1)\nSliceMax")):
                if old_txt not in src:
                    raise MachineryError(f"non-vacuity mutation {label}: anchor text not found in SliceThenProof.tla")
                mod = f"Mut_{label}"
                (tmp / f"{mod}.tla").write_text(src.replace(old_txt, new_txt, 1).replace("MODULE SliceThenProof", f"MODULE {mod}").replace("SMTT(120)", "SMTT(8)"))
                q = subprocess.run(["tlapm", "--toolbox", "0", "0", f"{mod}.tla"], cwd=tmp, capture_output=True, text=True, timeout=1200)
                if re.search(r"All \d+ obligations? proved", q.stdout + q.stderr):
                    raise MachineryError(f"non-vacuity: the wrong formula ({label}) is proved as well")
                part.counters["wrong_formulas_rejected"] = part.counters.get("wrong_formulas_rejected", 0) + 1
        else:
            # no proof back end answered (tool missing / starved): the theorems are still checked on all small
            # instances by TLC below (SliceThenEq!BoundedThen / BoundedBounds); the unbounded claim is then NOT made
            part.counters["tlaps_unavailable"] = 1
            part.notes.append("tlapm did not discharge the obligations in this environment (" + out[-200:].replace("\n", " ") + "); "
                              "the theorems were checked by TLC on all instances with bounds <= 7 only")
        part.traces = 0
    finally:
        shutil.rmtree(tmp, ignore_errors=True)
    part.wall_s = time.time() - t0
    t1 = time.time()
    res = run_tlc("SliceThenEq.tla", "SliceThenEq.cfg", workers=4, heap="2g")
    if res.violated:
        raise MachineryError("the proved definitions and RA_Ops!SliceThen / OpMin / OpMax disagree, or a bounded instance of the theorems fails: " + res.error_text[:500])
    p2 = Part(name="tlc:SliceThenEq", cfg="SliceThenEq.cfg", states=max(res.distinct, 1), transitions=max(res.generated, 1))
    p2.notes.append("TLC: the TLAPS-proved ThenA/ThenB equal RA_Ops!SliceThen, SliceMin/SliceMax equal RA_Ops!OpMin/OpMax, and both theorems hold "
                    "on all instances with bounds <= 7")
    p2.wall_s = time.time() - t1
    return [part, p2]
