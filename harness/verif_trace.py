"""pytest plugin: record every relation the repository's own tests build and
let TLC judge them (Binding B on the repository's test-suite).

Usage (done by fam_repo.py):
    LSST_DAF_RELATION_VERIF=1 VERIF_TRACE_OUT=<file> PYTHONPATH=/verif \
        /venv/bin/python -m pytest -p harness.verif_trace /repo/tests

With the guard variable unset the plugin does nothing.  Recording wraps (in the
test process only, nothing in /repo is modified) UnaryOperation.apply,
BinaryOperation.apply, Engine.transfer and Engine.materialize and appends one
ndjson event per returned relation: the projected tree (leaves with their
engine, columns, bounds).  Trees that use constructs outside the abstract
syntax (custom operations, custom marker relations) are counted and skipped.
"""
from __future__ import annotations

import json
import os

_ON = os.environ.get("LSST_DAF_RELATION_VERIF") == "1" and os.environ.get("VERIF_TRACE_OUT")
_depth = 0
_seen: set = set()
_stats = {"recorded": 0, "skipped": 0, "calls": 0}


def _record(rel, how: str) -> None:
    from .fam_iter import full_tree

    try:
        tree = _rename_engines(full_tree(rel), _engine_kinds(rel))
        blob = json.dumps(tree, sort_keys=True)
    except Exception:  # noqa: BLE001 - construct outside the abstract syntax
        _stats["skipped"] += 1
        return
    if blob in _seen:
        return
    _seen.add(blob)
    with open(os.environ["VERIF_TRACE_OUT"], "a") as f:
        f.write(json.dumps({"tree": tree, "env": {}, "rows": [], "bag": True, "checks": ["wf", "coh"], "how": how}) + "\n")
    _stats["recorded"] += 1


def _engine_kinds(rel) -> dict:
    """engine name -> name used in the abstract tree ('sql' for SQL engines)."""
    from lsst.daf.relation import BinaryOperationRelation, MarkerRelation, Transfer, UnaryOperationRelation, sql

    kinds: dict = {}

    def note(e):
        kinds[e.name] = "sql" if isinstance(e, sql.Engine) else ("it_" + e.name)

    def walk(x):
        note(x.engine)
        match x:
            case UnaryOperationRelation(target=target):
                walk(target)
            case BinaryOperationRelation(lhs=lhs, rhs=rhs):
                walk(lhs)
                walk(rhs)
            case MarkerRelation(target=target):
                if isinstance(x, Transfer):
                    note(x.destination)
                walk(target)
                if hasattr(x, "skip_to"):
                    walk(x.skip_to)

    walk(rel)
    return kinds


def _rename_engines(t, kinds):
    if isinstance(t, dict):
        out = {}
        for k, v in t.items():
            if (k == "eng" and t.get("k") == "leaf") or (k == "dest" and t.get("k") == "xfer"):
                out[k] = kinds.get(v, "it_" + str(v))
            else:
                out[k] = _rename_engines(v, kinds)
        return out
    if isinstance(t, list):
        return [_rename_engines(v, kinds) for v in t]
    return t


def _wrap(cls, name, how):
    orig = getattr(cls, name)

    def wrapper(*args, **kwargs):
        global _depth
        _depth += 1
        try:
            result = orig(*args, **kwargs)
        finally:
            _depth -= 1
        _stats["calls"] += 1
        if _depth == 0:       # outermost factory call only: the relation handed to the caller
            _record(result, how)
        return result

    setattr(cls, name, wrapper)


def pytest_configure(config):
    if not _ON:
        return
    from lsst.daf.relation import BinaryOperation, Engine, UnaryOperation, sql

    _wrap(UnaryOperation, "apply", "unary")
    _wrap(BinaryOperation, "apply", "binary")
    _wrap(Engine, "transfer", "transfer")
    _wrap(Engine, "materialize", "materialize")
    _wrap(sql.Engine, "transfer", "transfer")
    _wrap(sql.Engine, "materialize", "materialize")


def pytest_unconfigure(config):
    if _ON:
        with open(os.environ["VERIF_TRACE_OUT"] + ".stats", "w") as f:
            json.dump(_stats, f)
