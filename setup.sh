#!/bin/sh
# Offline setup: parse every specification module; nothing is fetched or built.
cd "$(dirname "$0")/spec" || exit 2
tmp=$(mktemp)
for m in *.tla; do
  java -cp /opt/veriftools/tla/tla2tools.jar:/opt/veriftools/tla/CommunityModules-deps.jar tla2sany.SANY "$m" > "$tmp" 2>&1
  if grep -q "Could not parse\|\*\*\* Errors\|Fatal errors" "$tmp"; then cat "$tmp"; rm -f "$tmp"; exit 1; fi
done
rm -f "$tmp"
/venv/bin/python -c "import lsst.daf.relation, sqlalchemy, sqlite3; print('setup ok', sqlalchemy.__version__, sqlite3.sqlite_version)"
