#!/bin/sh
# Offline setup: parse every specification module; nothing is fetched or built.
cd "$(dirname "$0")" || exit 2
set -e
for m in spec/*.tla; do
  java -cp /opt/veriftools/tla/tla2tools.jar:/opt/veriftools/tla/CommunityModules-deps.jar tla2sany.SANY "$m" > /tmp/verif-sany.$$ 2>&1 || { cat /tmp/verif-sany.$$; rm -f /tmp/verif-sany.$$; exit 1; }
  if grep -q "Could not parse\|\*\*\* Errors" /tmp/verif-sany.$$; then cat /tmp/verif-sany.$$; rm -f /tmp/verif-sany.$$; exit 1; fi
done
rm -f /tmp/verif-sany.$$
/venv/bin/python -c "import lsst.daf.relation, sqlalchemy, sqlite3; print('setup ok', sqlalchemy.__version__, sqlite3.sqlite_version)"
