SPECIFICATION Spec
CONSTANTS
  Mode = "custom"
  SortFix = TRUE
  Clamp = TRUE
  ExcludeKF = TRUE
  Emit = TRUE
INVARIANT CommuteSound
INVARIANT MergeSound
INVARIANT EmitState
CHECK_DEADLOCK FALSE
