SPECIFICATION Spec
CONSTANTS
  Contents <- C2
  Sources <- Both
  BuildDepth = 3
  EvalDepth = 2
  Emit = FALSE
INVARIANT KF8Gone
CHECK_DEADLOCK FALSE
