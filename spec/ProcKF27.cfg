SPECIFICATION Spec
CONSTANTS
  Contents <- C2
  Sources <- Both
  BuildDepth = 3
  EvalDepth = 2
  Emit = FALSE
  FixF27 <- FixOff
INVARIANT EvalOnce
INVARIANT PayTruthful
INVARIANT ProcessedAll
INVARIANT ContentKept
INVARIANT ProcessRefines
INVARIANT WrapSound
PROPERTY WriteOnce
CHECK_DEADLOCK FALSE
