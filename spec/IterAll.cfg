SPECIFICATION Spec
CONSTANTS
  Contents <- All85
  BoundModes <- BM4
  Schema = "AB"
  MaxDepth = 2
  Rich = TRUE
  EmitMin = 0
  Emit = TRUE
INVARIANT ExecMatches
INVARIANT DenMatches
INVARIANT MetaTruthful
INVARIANT WF
INVARIANT DiagSound
INVARIANT LazyPromise
INVARIANT ExecOnce
INVARIANT RejectsAll
INVARIANT EmitState
PROPERTY NoOpIdentity
CHECK_DEADLOCK FALSE
