------------------------------- MODULE MC_Multi -------------------------------
EXTENDS MultiEngine
R(x, y) == [a |-> x, b |-> y]
C2 == { <<R(0,1), R(0,1), R(1,0)>>, <<R(1,0), R(0,1), R(0,0), R(1,0)>> }
C4 == { <<>>, <<R(1,1)>>, <<R(0,1), R(0,1), R(1,0)>>, <<R(1,0), R(0,1), R(0,0), R(1,0)>> }
C1 == { <<R(1,0), R(0,1), R(0,0), R(1,0)>> }
Both == {"sql", "it1"}
NoStart == {"none"}
AllStarts == {"none", "calc", "xmat", "xsel"}
XSelStart == {"xsel"}
SeededStarts == {"calc", "xmat"}
FixOff == FALSE
SwitchOn == TRUE
OnlyIt1 == {"it1"}
=============================================================================
