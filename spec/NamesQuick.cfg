SPECIFICATION Spec
CONSTANTS
  Threads <- T2
  EngineOf <- SameEngine2
  Requests = 2
  UseUuid = TRUE
  Emit = TRUE
INVARIANT Unique
INVARIANT Prefixed
INVARIANT CounterBounded
INVARIANT EmitState
CHECK_DEADLOCK FALSE
