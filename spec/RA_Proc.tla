------------------------------- MODULE RA_Proc -------------------------------
(***************************************************************************)
(* Processor._process_recursive AS CODED (_processor.py), together with    *)
(* the engine methods it calls back into (Relation.materialized ->         *)
(* Engine.materialize, MarkerRelation.reapply, Select.reapply,             *)
(* UnaryOperation.apply, BinaryOperation.apply).                           *)
(*                                                                         *)
(* Payloads are abstracted to PRESENCE.  Marker nodes of the tree passed   *)
(* in are ordinary tree values; whether their payload cell is set is the   *)
(* set `paid` of materialization names (transfers of the input tree never  *)
(* get one).  Marker nodes CREATED by the processor carry a field          *)
(* p \in BOOLEAN (payload present).  A Select wrapper may carry p too:     *)
(* that is how the open findings F8 / F16 show up in the model - the SQL   *)
(* engine's materialized() returns a Select wrapper, so the processor      *)
(* looks up / attaches the payload on the wrapper instead of the           *)
(* Materialization inside it.                                              *)
(*                                                                         *)
(*   Process(t, mas, paid) = [t, persisted, paid, hooks] | [err]           *)
(*   hooks: sequence of [hook, mas, ok, trivial]  (ok: the source is       *)
(*   evaluable by its engine on its own; trivial: statically empty or a    *)
(*   join identity - both are what property C07 demands of every call)     *)
(***************************************************************************)
EXTENDS RA_Engine

WithP(n, b) == [x \in (DOMAIN n) \cup {"p"} |-> IF x = "p" THEN b ELSE n[x]]

\* relation.payload is not None
HasPayload(n, paid) ==
    CASE n.k = "leaf" -> TRUE
      [] n.k \in {"un", "bin"} -> FALSE
      [] Has(n, "p") -> n.p
      [] n.k = "mat" -> n.name \in paid
      [] OTHER -> FALSE

\* can the engine of t evaluate t without a Processor?
RECURSIVE EvaluableP(_, _)
EvaluableP(t, paid) ==
    IF t.k \in {"xfer", "mat"} /\ HasPayload(t, paid) THEN TRUE
    ELSE CASE t.k = "leaf" -> TRUE
           [] t.k = "un"   -> EvaluableP(t.t, paid)
           [] t.k = "bin"  -> EvaluableP(t.l, paid) /\ EvaluableP(t.r, paid) /\ (t.op.o = "join" => KindOf(Eng(t)) = "sql")
           [] t.k = "xfer" -> KindOf(t.dest) = "iter" /\ KindOf(Eng(t.t)) = "iter" /\ EvaluableP(t.t, paid)
           [] t.k = "mat"  -> KindOf(Eng(t)) = "iter" /\ EvaluableP(t.t, paid)
           [] t.k = "sel"  -> EvaluableP(t.skip, paid)

\* relation.materialized(name): Engine.materialize of the relation's engine
MaterializedBy(t, name) ==
    IF KindOf(Eng(t)) = "sql"
    THEN Bind(Conform(t), LAMBDA c :
            IF HasSort(c) /\ ~HasSlice(c) THEN Err("OrderLoss")
            ELSE IF MaterializeSimplify(c) THEN c ELSE PlainSel(WithP(Mat(name, c), FALSE)))
    ELSE IF MaterializeSimplify(t) THEN t ELSE WithP(Mat(name, t), FALSE)

\* Payload KINDS (finding F27): a transfer payload obtained with materialize_as = None is not made
\* for caching (the hook may hand over a lazy iterable that re-evaluates its source); transfers created
\* by the processor record it in the field pc (payload cacheable).  `weak` collects the names of the
\* materializations that ADOPTED such a payload instead of asking the materialize hook.
\* TRUE: the code after the fix of finding F27 (a companion configuration overrides it)
FixF27 == TRUE
WeakSource(n) == IF n.k = "xfer" THEN Has(n, "pc") /\ ~n.pc
                 ELSE IF n.k = "sel" THEN (n.t.k = "xfer" /\ Has(n.t, "pc") /\ ~n.t.pc) ELSE FALSE
WithPC(n, b, c) == [x \in (DOMAIN n) \cup {"p", "pc"} |-> IF x = "p" THEN b ELSE IF x = "pc" THEN c ELSE n[x]]

RECURSIVE Process(_, _, _)
Process(t, mas, paid) ==
    \* (fix of finding F27) a payload found on a Transfer says nothing about persistence
    IF HasPayload(t, paid) THEN [t |-> t, persisted |-> ~(FixF27 /\ t.k = "xfer"), paid |-> paid, hooks |-> <<>>, weak |-> {}]
    ELSE
    CASE t.k = "xfer" ->
            IF JoinIdentity(t) \/ MaxR(t) = 0
            THEN [t |-> WithPC(Xfer(t.dest, t.t), TRUE, TRUE), persisted |-> mas # "none", paid |-> paid, hooks |-> <<>>, weak |-> {}]
            ELSE LET r == Process(t.t, "none", paid) IN
                 IF IsErr(r) THEN r
                 ELSE [t |-> WithPC(Xfer(t.dest, r.t), TRUE, mas # "none"), persisted |-> mas # "none", paid |-> r.paid, weak |-> r.weak,
                       hooks |-> Append(r.hooks, [hook |-> "transfer", mas |-> mas,
                                                  ok |-> EvaluableP(r.t, r.paid), trivial |-> Trivial(r.t)])]
      [] t.k = "mat" ->
            LET r == Process(t.t, t.name, paid) IN
            IF IsErr(r) THEN r
            ELSE LET changed == r.t # t.t
                     res == IF changed THEN MaterializedBy(r.t, t.name) ELSE t
                 IN IF IsErr(res) THEN res
                    ELSE IF changed /\ HasPayload(res, r.paid)
                    THEN [t |-> res, persisted |-> TRUE, paid |-> r.paid \cup {t.name}, hooks |-> r.hooks, weak |-> r.weak]
                    ELSE LET useHook == ~r.persisted /\ ~JoinIdentity(t) /\ MaxR(t) # 0
                             present == IF r.persisted THEN HasPayload(r.t, r.paid) ELSE TRUE
                             hk == [hook |-> "materialize", mas |-> t.name,
                                    ok |-> EvaluableP(r.t, r.paid), trivial |-> Trivial(r.t)]
                             \* result.attach_payload(payload): on the object materialized() returned
                             newRes == IF ~changed THEN t ELSE WithP(res, present)
                         IN [t |-> newRes, persisted |-> TRUE,
                             weak |-> IF r.persisted /\ WeakSource(r.t) THEN r.weak \cup {t.name} ELSE r.weak,
                             paid |-> IF present THEN r.paid \cup {t.name} ELSE r.paid,
                             hooks |-> IF useHook THEN Append(r.hooks, hk) ELSE r.hooks]
      [] t.k = "sel" ->
            LET r == Process(t.t, mas, paid) IN
            IF IsErr(r) THEN r
            ELSE LET nt == IF r.t = t.t THEN t ELSE Conform(r.t) IN
                 IF IsErr(nt) THEN nt
                 ELSE [t |-> nt, persisted |-> r.persisted, paid |-> r.paid, hooks |-> r.hooks, weak |-> r.weak]
      [] t.k = "un" ->
            LET r == Process(t.t, "none", paid) IN
            IF IsErr(r) THEN r
            ELSE LET nt == IF r.t = t.t THEN t ELSE ApplyUnary(t.op, r.t, DefaultOpts) IN
                 IF IsErr(nt) THEN nt
                 ELSE [t |-> nt, persisted |-> FALSE, paid |-> r.paid, hooks |-> r.hooks, weak |-> r.weak]
      [] t.k = "bin" ->
            LET l == Process(t.l, "none", paid) IN
            IF IsErr(l) THEN l
            ELSE LET r == Process(t.r, "none", l.paid) IN
                 IF IsErr(r) THEN r
                 ELSE LET hooks == l.hooks \o r.hooks IN
                      IF t.op.o = "chain" /\ MaxR(l.t) = 0
                      THEN [t |-> r.t, persisted |-> r.persisted, paid |-> r.paid, hooks |-> hooks, weak |-> l.weak \cup r.weak]
                      ELSE IF t.op.o = "chain" /\ MaxR(r.t) = 0
                      THEN [t |-> l.t, persisted |-> l.persisted, paid |-> r.paid, hooks |-> hooks, weak |-> l.weak \cup r.weak]
                      ELSE LET nt == IF l.t = t.l /\ r.t = t.r THEN t
                                     ELSE ApplyBinary(IF t.op.o = "chain" THEN ChainOp
                                                      ELSE [o |-> "join", p |-> t.op.p, common |-> t.op.common, res |-> TRUE],
                                                      l.t, r.t)
                           IN IF IsErr(nt) THEN nt
                              ELSE [t |-> nt, persisted |-> FALSE, paid |-> r.paid, hooks |-> hooks, weak |-> l.weak \cup r.weak]

ProcessTop(t, paid) == Process(t, "none", paid)

\* open findings F8 / F16: a SQL materialization whose upstream tree is rebuilt by
\* process() (it contains a transfer, or a chain with a statically empty branch)
RECURSIVE Rebuilt(_)
Rebuilt(t) ==
    CASE t.k = "leaf" -> FALSE
      [] t.k = "un"   -> Rebuilt(t.t)
      [] t.k = "bin"  -> Rebuilt(t.l) \/ Rebuilt(t.r) \/ (t.op.o = "chain" /\ (MaxR(t.l) = 0 \/ MaxR(t.r) = 0))
      [] t.k = "xfer" -> TRUE
      [] t.k = "mat"  -> Rebuilt(t.t)
      [] t.k = "sel"  -> Rebuilt(t.skip)
KF8Tree(t) == \E n \in Nodes(t) : n.k = "mat" /\ KindOf(Eng(n)) = "sql" /\ Rebuilt(n.t)

\* the tree with the payload state of every transfer / materialization made explicit
\* (what the harness reads off the real relation objects)
RECURSIVE Flagged(_, _)
Flagged(t, paid) ==
    CASE t.k = "leaf" -> t
      [] t.k = "un"   -> Un(t.op, Flagged(t.t, paid))
      [] t.k = "bin"  -> Bin(t.op, Flagged(t.l, paid), Flagged(t.r, paid))
      [] t.k = "xfer" -> WithP(Xfer(t.dest, Flagged(t.t, paid)), HasPayload(t, paid))
      [] t.k = "mat"  -> WithP(Mat(t.name, Flagged(t.t, paid)), HasPayload(t, paid))
      [] t.k = "sel"  -> [k |-> "sel", sort |-> t.sort, proj |-> t.proj, dedup |-> t.dedup, a |-> t.a, b |-> t.b,
                          skip |-> Flagged(t.skip, paid), t |-> Flagged(t.t, paid)]

\* marker nodes that hold a payload
PaidNodes(t, paid) == {n \in Nodes(t) : n.k \in {"xfer", "mat"} /\ HasPayload(n, paid)}
=============================================================================
