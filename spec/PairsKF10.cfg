SPECIFICATION Spec
CONSTANTS
  Mode = "sorts"
  SortFix = FALSE
  Clamp = TRUE
  ExcludeKF = TRUE
  Emit = FALSE
INVARIANT CommuteSound
CHECK_DEADLOCK FALSE
