SPECIFICATION Spec
CONSTANTS
  Contents <- C1
  Sources <- Both
  BaseDepth = 1
  FinalOps = "few"
  Starts <- AllStarts
  Emit = TRUE
INVARIANT ContentKept
INVARIANT ColumnsKept
INVARIANT WF
INVARIANT MetaTruthful
INVARIANT NoPlacementColumnError
INVARIANT IllRejected
INVARIANT ProcessedBaseSound
INVARIANT EmitState
PROPERTY LockedKept
PROPERTY MatsKept
PROPERTY OptionsHonoured
PROPERTY NoOpIdentity
PROPERTY TransferLands
CHECK_DEADLOCK FALSE
