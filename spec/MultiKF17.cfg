SPECIFICATION Spec
CONSTANTS
  Contents <- C1
  Sources <- Both
  BaseDepth = 2
  FinalOps = "few"
  Starts <- NoStart
  Emit = FALSE
  FixF17 <- FixOff
INVARIANT F17Gone
CHECK_DEADLOCK FALSE
