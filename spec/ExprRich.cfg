SPECIFICATION Spec
CONSTANTS
  Lo <- MC_Lo
  Hi <- MC_Hi
  LitVals <- MC_LitVals
  RangeLo <- MC_RangeLo
  RangeHi <- MC_RangeHi
  Steps <- MC_Steps
  MaxDepth = 1
  Rich = TRUE
  OldRange = FALSE
  Emit = TRUE
INVARIANT SqlAgrees
INVARIANT SqlFlatAgrees
INVARIANT TrivialSound
INVARIANT FlattenSound
INVARIANT NormSound
INVARIANT ReqSufficient
INVARIANT EmitState
CHECK_DEADLOCK FALSE
