SPECIFICATION Spec
CONSTANTS
  Contents <- Small6
  BoundModes <- BM2
  Schema = "AB"
  MaxDepth = 2
  Rich = FALSE
  EmitMin = 0
  Emit = TRUE
  CustomOn <- SwitchOn
INVARIANT ExecMatches
INVARIANT DenMatches
INVARIANT MetaTruthful
INVARIANT WF
INVARIANT DiagSound
INVARIANT LazyPromise
INVARIANT ExecOnce
INVARIANT RejectsAll
INVARIANT EmitState
PROPERTY NoOpIdentity
CHECK_DEADLOCK FALSE
