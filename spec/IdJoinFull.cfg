SPECIFICATION Spec
CONSTANTS
  MaxXfers = 3
  MaxMid = 2
  Sources <- BothSrc
  Emit = TRUE
INVARIANT WF
INVARIANT Content
INVARIANT RequireHonoured
INVARIANT EmitState
CHECK_DEADLOCK FALSE
