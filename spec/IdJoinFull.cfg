SPECIFICATION Spec
CONSTANTS
  MaxXfers = 3
  MaxMid = 2
  Emit = TRUE
INVARIANT WF
INVARIANT Content
INVARIANT EmitState
CHECK_DEADLOCK FALSE
