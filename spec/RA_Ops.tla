------------------------------- MODULE RA_Ops -------------------------------
(***************************************************************************)
(* The unary operations of lsst.daf.relation:                              *)
(*   - REFERENCE semantics ApplyOp (what C01/C02/C04/C05 mean by "direct   *)
(*     evaluation of the applied operation sequence"),                     *)
(*   - static metadata exactly as coded (columns, row bounds, flags),      *)
(*   - the rewrite rules, one operator per method of the code:             *)
(*       Simplify(op, up)   = op.simplify(up)          (_operations)       *)
(*       Commute(new, cur, tc) = new.commute(cur over a target with        *)
(*                               columns tc)   ->  [first, second, done]   *)
(*                                                                         *)
(*   op := [o|->"calc",tag,e] | [o|->"proj",cols] | [o|->"sel",p]          *)
(*       | [o|->"dedup"] | [o|->"slice",a,b] (b = -1 for None)             *)
(*       | [o|->"sort",terms] (terms: seq of [e, asc]) | [o|->"id"]        *)
(*       | [o|->"none"] (Python None in a commutator)                      *)
(* Raising is a value:  [err |-> "ColumnError" | "ValueError" | ...].      *)
(***************************************************************************)
EXTENDS RA_Values

Calc(tag, e) == [o |-> "calc", tag |-> tag, e |-> e]
Proj(cols) == [o |-> "proj", cols |-> cols]
Sel(p) == [o |-> "sel", p |-> NormSel(p)]      \* Selection.__post_init__ normalises
SelRaw(p) == [o |-> "sel", p |-> p]
Dedup == [o |-> "dedup"]
Slice(a, b) == [o |-> "slice", a |-> a, b |-> b]
Sort(terms) == [o |-> "sort", terms |-> terms]
Term(e, asc) == [e |-> e, asc |-> asc]
IdOp == [o |-> "id"]
\* User-defined operations of the extension API (subclasses of RowFilter / Reordering with
\* TRUTHFUL flags; the iteration engine evaluates them through apply_custom_unary_operation):
\*   reverse    Reordering, order-dependent                 rows in reverse order
\*   sortsum    Reordering, not order-dependent (like Sort) stable sort by a + b, needs {a, b}
\*   apos       RowFilter on column a (a > 0), needs {a}
\*   evencount  RowFilter, count-dependent                  all rows when their number is even, else none
\*   everyother RowFilter, order- and count-dependent, empty-invariant   rows 1, 3, 5, ...
Cust(f) == [o |-> "cust", f |-> f]
CustNames == {"reverse", "sortsum", "apos", "evencount", "everyother"}
NoneOp == [o |-> "none"]
Err(cls) == [err |-> cls]
IsErr(x) == Has(x, "err")

(***************************************************************************)
(* Reference semantics on sequences of rows                                *)
(***************************************************************************)
RECURSIVE FilterSeq(_, _)
FilterSeq(rows, p) ==
    IF rows = <<>> THEN <<>>
    ELSE IF EvalP(p, Head(rows)) THEN <<Head(rows)>> \o FilterSeq(Tail(rows), p)
         ELSE FilterSeq(Tail(rows), p)

\* keep the first occurrence of each distinct row
RECURSIVE DedupSeq(_)
DedupSeq(rows) ==
    IF rows = <<>> THEN <<>>
    ELSE LET init == DedupSeq(SubSeq(rows, 1, Len(rows) - 1))
             last == rows[Len(rows)]
         IN IF \E i \in DOMAIN init : init[i] = last THEN init ELSE Append(init, last)

\* r1 sorts strictly before r2 under the term list
Before(r1, r2, terms) ==
    \E i \in DOMAIN terms :
        /\ \A j \in 1..(i - 1) : EvalE(terms[j].e, r1) = EvalE(terms[j].e, r2)
        /\ IF terms[i].asc THEN EvalE(terms[i].e, r1) < EvalE(terms[i].e, r2)
                           ELSE EvalE(terms[i].e, r1) > EvalE(terms[i].e, r2)

RECURSIVE InsertSorted(_, _, _)
InsertSorted(sorted, r, terms) ==
    IF sorted = <<>> THEN <<r>>
    ELSE IF Before(r, Head(sorted), terms) THEN <<r>> \o sorted
         ELSE <<Head(sorted)>> \o InsertSorted(Tail(sorted), r, terms)

\* stable multi-key sort honouring per-term direction
RECURSIVE SortRows(_, _)
SortRows(rows, terms) ==
    IF rows = <<>> THEN <<>>
    ELSE InsertSorted(SortRows(SubSeq(rows, 1, Len(rows) - 1), terms), rows[Len(rows)], terms)

SliceSeq(rows, a, b) ==
    LET hi == IF b = -1 THEN Len(rows) ELSE Min2(b, Len(rows)) IN
    IF a >= hi THEN <<>> ELSE SubSeq(rows, a + 1, hi)

ApplyCust(f, rows) ==
    CASE f = "reverse"    -> [i \in DOMAIN rows |-> rows[Len(rows) + 1 - i]]
      [] f = "sortsum"    -> SortRows(rows, <<Term(Fn("add", <<Ref("a"), Ref("b")>>), TRUE)>>)
      [] f = "apos"       -> FilterSeq(rows, Cmp("gt", Ref("a"), Lit(0)))
      [] f = "evencount"  -> IF Len(rows) % 2 = 0 THEN rows ELSE <<>>
      [] f = "everyother" -> [i \in 1..((Len(rows) + 1) \div 2) |-> rows[2 * i - 1]]

ApplyOp(op, rows) ==
    CASE op.o = "cust"  -> ApplyCust(op.f, rows)
      [] op.o = "calc"  -> [i \in DOMAIN rows |-> Extend(rows[i], op.tag, EvalE(op.e, rows[i]))]
      [] op.o = "proj"  -> [i \in DOMAIN rows |-> Restrict(rows[i], op.cols)]
      [] op.o = "sel"   -> FilterSeq(rows, op.p)
      [] op.o = "dedup" -> DedupSeq(rows)
      [] op.o = "slice" -> SliceSeq(rows, op.a, op.b)
      [] op.o = "sort"  -> SortRows(rows, op.terms)
      [] op.o = "id"    -> rows

RECURSIVE ApplyOps(_, _)
ApplyOps(ops, rows) == IF ops = <<>> THEN rows ELSE ApplyOps(Tail(ops), ApplyOp(Head(ops), rows))

\* multiset view
BagOf(rows) == [r \in SeqSet(rows) |-> Cardinality({i \in DOMAIN rows : rows[i] = r})]
SameBag(r1, r2) == Len(r1) = Len(r2) /\ BagOf(r1) = BagOf(r2)

(***************************************************************************)
(* Static metadata, as coded                                               *)
(***************************************************************************)
IsCust(op, fs) == op.o = "cust" /\ op.f \in fs
CountDep(op) == op.o = "slice" \/ IsCust(op, {"evencount", "everyother"})
OrderDep(op) == op.o = "slice" \/ IsCust(op, {"reverse", "everyother"})
EmptyInv(op) == op.o \notin {"sel", "slice"} /\ ~IsCust(op, {"apos", "evencount"})
CountInv(op) == op.o \in {"calc", "proj", "sort", "id"} \/ IsCust(op, {"reverse", "sortsum"})
IsReordering(op) == op.o = "sort" \/ IsCust(op, {"reverse", "sortsum"})
IsRowFilter(op) == op.o \in {"sel", "slice"} \/ IsCust(op, {"apos", "evencount", "everyother"})

ReqOp(op) ==
    CASE op.o = "calc" -> ReqE(op.e)
      [] op.o = "proj" -> op.cols
      [] op.o = "sel"  -> ReqP(op.p)
      [] op.o = "sort" -> UNION {ReqE(op.terms[i].e) : i \in DOMAIN op.terms}
      [] op.o = "cust" -> IF op.f = "sortsum" THEN {"a", "b"} ELSE IF op.f = "apos" THEN {"a"} ELSE {}
      [] OTHER -> {}

OpCols(op, tcols) ==
    CASE op.o = "calc" -> tcols \cup {op.tag}
      [] op.o = "proj" -> op.cols
      [] OTHER -> tcols

\* applied_min_rows(target) given the target's (min, max, cols); max = -1: None
OpMin(op, tmin, tmax, tcols) ==
    CASE op.o = "sel"   -> 0
      [] op.o = "dedup" -> IF tmin >= 1 THEN 1 ELSE 0
      [] op.o = "slice" -> LET stop == IF op.b # -1 THEN Min2(op.b, tmin) ELSE tmin
                           IN Max2(stop - op.a, 0)
      \* RowFilter.applied_min_rows (the default the extension operations inherit)
      [] IsCust(op, {"apos", "evencount", "everyother"}) ->
            IF tmin = 0 THEN 0 ELSE IF EmptyInv(op) THEN 1 ELSE 0
      [] OTHER -> tmin

OpMax(op, tmin, tmax, tcols) ==
    CASE op.o = "dedup" -> IF tcols = {} THEN (IF tmax = -1 \/ tmax >= 1 THEN 1 ELSE 0) ELSE tmax
      [] op.o = "slice" ->
            IF op.b # -1
            THEN LET stop == IF tmax # -1 THEN Min2(op.b, tmax) ELSE op.b IN Max2(stop - op.a, 0)
            ELSE IF tmax # -1 THEN Max2(tmax - op.a, 0) ELSE -1
      [] OTHER -> tmax

SupOp(op, kind) ==
    CASE op.o = "calc" -> SupE(op.e, kind)
      [] op.o = "sel"  -> SupP(op.p, kind)
      [] op.o = "sort" -> \A i \in DOMAIN op.terms : SupE(op.terms[i].e, kind)
      [] OTHER -> TRUE

\* An operation that does nothing (the documented no-op forms)
IsNoOp(op, tcols) ==
    CASE op.o = "proj"  -> op.cols = tcols
      [] op.o = "sel"   -> AsTrivial(op.p) = "T"
      [] op.o = "slice" -> op.a = 0 /\ op.b = -1
      [] op.o = "sort"  -> op.terms = <<>>
      [] op.o = "id"    -> TRUE
      [] OTHER -> FALSE

(***************************************************************************)
(* Constructor checks (raise at construction of the operation object)      *)
(***************************************************************************)
CtorErr(op) ==
    CASE op.o = "slice" -> IF op.a < 0 \/ (op.b # -1 /\ op.b < op.a) THEN "ValueError" ELSE "none"
      [] op.o = "calc"  -> IF ReqE(op.e) = {} THEN "ColumnError" ELSE "none"
      [] OTHER -> "none"

(***************************************************************************)
(* Slice.then / Sort.then                                                  *)
(***************************************************************************)
\* clamp = TRUE: the code after the fix of finding F6 (start clamped to stop);
\* clamp = FALSE: the pinned commit, where Slice(5, 2) raises ValueError.
SliceThenG(up, nx, clamp) ==
    LET ns == up.a + nx.a
        nt == IF up.b = -1 THEN (IF nx.b = -1 THEN -1 ELSE nx.b + up.a)
              ELSE (IF nx.b = -1 THEN up.b ELSE Min2(up.b, nx.b + up.a))
    IN IF nt # -1 /\ nt < ns
       THEN (IF clamp THEN Slice(nt, nt) ELSE Err("ValueError"))
       ELSE Slice(ns, nt)
SliceThen(up, nx) == SliceThenG(up, nx, TRUE)

RECURSIVE AppendNew(_, _)
AppendNew(acc, ts) ==
    IF ts = <<>> THEN acc
    ELSE IF \E i \in DOMAIN acc : acc[i] = Head(ts) THEN AppendNew(acc, Tail(ts))
         ELSE AppendNew(Append(acc, Head(ts)), Tail(ts))
SortThen(up, nx) == Sort(AppendNew(nx.terms, up.terms))

(***************************************************************************)
(* op.simplify(up): [some |-> FALSE] | [some |-> TRUE, op |-> merged]      *)
(*                  | [err |-> ...]   (merged may be `up` itself)           *)
(***************************************************************************)
NoSimp == [some |-> FALSE]
Simp(op) == [some |-> TRUE, op |-> op]

SimplifyG(op, up, clamp) ==
    CASE op.o = "proj" ->
            IF up.o = "proj" THEN Simp(op)
            ELSE IF up.o = "calc" /\ up.tag \notin op.cols THEN Simp(op)
            ELSE NoSimp
      [] op.o = "sel" ->
            IF up.o = "sel" THEN Simp(Sel(And(<<up.p, op.p>>))) ELSE NoSimp
      [] op.o = "slice" ->
            IF op.a = 0 /\ op.b = -1 THEN Simp(up)
            ELSE IF up.o = "slice"
                 THEN LET m == SliceThenG(up, op, clamp) IN IF IsErr(m) THEN m ELSE Simp(m)
                 ELSE NoSimp
      [] op.o = "sort" ->
            IF op.terms = <<>> THEN Simp(up)
            ELSE IF up.o = "sort" THEN Simp(SortThen(up, op)) ELSE NoSimp
      [] op.o = "id" -> Simp(up)
      [] OTHER -> NoSimp
Simplify(op, up) == SimplifyG(op, up, TRUE)

(***************************************************************************)
(* new.commute(cur)  where cur acts on a target with columns tc.           *)
(* sortFix = TRUE: the code after the fix of finding F10 (a Sort is not    *)
(* moved upstream of another reordering); FALSE: the pinned commit.        *)
(***************************************************************************)
Commutator(first, second, done) == [first |-> first, second |-> second, done |-> done]
Refuse(cur) == Commutator(NoneOp, cur, FALSE)

\* TRUE: the code after the fix of finding F21 (a companion configuration overrides it)
FixF21 == TRUE
FixF25 == TRUE
CommuteG(new, cur, tc, sortFix) ==
    LET curCols == OpCols(cur, tc) IN
    CASE new.o = "calc" ->
            \* (fix of finding F21) the tag of the new column may have been dropped by the current
            \* operation (a projection) and still exist upstream of it
            IF FixF21 /\ new.tag \in tc THEN Refuse(cur)
            ELSE IF ~(ReqE(new.e) \subseteq tc) THEN Refuse(cur)
            ELSE Commutator(new, IF cur.o = "proj" THEN Proj(cur.cols \cup {new.tag}) ELSE cur, TRUE)
      [] new.o = "dedup" ->
            IF ~(tc \subseteq curCols) THEN Refuse(cur)
            \* (fix of finding F25) a deduplication keeps the FIRST occurrence of each row, so it is
            \* not moved upstream of an order-dependent operation either
            ELSE IF CountDep(cur) \/ (FixF25 /\ OrderDep(cur)) THEN Refuse(cur)
            ELSE Commutator(new, cur, TRUE)
      [] new.o = "proj" ->
            IF cur.o = "proj" THEN Commutator(new, IdOp, TRUE)
            ELSE IF cur.o = "calc" /\ cur.tag \notin new.cols THEN Commutator(new, IdOp, TRUE)
            ELSE LET cc == IF cur.o = "calc" THEN new.cols \ {cur.tag} ELSE new.cols IN
                 IF ~(ReqOp(cur) \subseteq cc)
                 THEN Commutator(Proj(cc \cup ReqOp(cur)), cur, FALSE)
                 ELSE Commutator(Proj(cc), cur, TRUE)
      [] new.o = "sel" ->
            IF ~(ReqP(new.p) \subseteq tc) THEN Refuse(cur)
            ELSE IF CountDep(cur) THEN Refuse(cur)
            ELSE Commutator(new, cur, TRUE)
      [] new.o = "slice" ->
            IF cur.o \in {"proj", "calc"} THEN Commutator(new, cur, TRUE) ELSE Refuse(cur)
      [] new.o = "sort" ->
            IF ~(ReqOp(new) \subseteq tc) THEN Refuse(cur)
            ELSE IF OrderDep(cur) THEN Refuse(cur)
            ELSE IF sortFix /\ IsReordering(cur) THEN Refuse(cur)
            ELSE Commutator(new, cur, TRUE)
      [] new.o = "id" -> Commutator(new, cur, TRUE)
      \* extension operations inherit UnaryOperation.commute: "does not commute with anything"
      [] new.o = "cust" -> Refuse(cur)
Commute(new, cur, tc) == CommuteG(new, cur, tc, TRUE)

(***************************************************************************)
(* Validity of an operation on a relation with columns tc (the checks of   *)
(* _begin_apply): "none" or the exception class.  Identity short-cuts come *)
(* BEFORE the column checks for selection (trivially true), exactly as     *)
(* coded.                                                                  *)
(***************************************************************************)
BeginErr(op, tc) ==
    CASE op.o = "calc" ->
            IF ~(ReqE(op.e) \subseteq tc) THEN "ColumnError"
            ELSE IF op.tag \in tc THEN "ColumnError" ELSE "none"
      [] op.o = "proj" ->
            IF op.cols = tc THEN "none" ELSE IF ~(op.cols \subseteq tc) THEN "ColumnError" ELSE "none"
      [] op.o = "sel" ->
            IF AsTrivial(op.p) = "T" THEN "none"
            ELSE IF ~(ReqP(op.p) \subseteq tc) THEN "ColumnError" ELSE "none"
      [] op.o = "sort" ->
            IF op.terms = <<>> THEN "none"
            ELSE IF \E i \in DOMAIN op.terms : ~(ReqE(op.terms[i].e) \subseteq tc) THEN "ColumnError"
            ELSE "none"
      [] OTHER -> "none"

\* _begin_apply returns Identity for the documented no-op forms
BeginIsIdentity(op, tc) == BeginErr(op, tc) = "none" /\ IsNoOp(op, tc)

\* well-formedness of an operation on columns tc in the strict sense of C04:
\* everything it needs is there and a calculated tag is new
WellFormedOn(op, tc) ==
    CASE op.o = "none" -> FALSE
      [] op.o = "calc" -> ReqE(op.e) \subseteq tc /\ op.tag \notin tc
      [] OTHER -> ReqOp(op) \subseteq tc

=============================================================================
