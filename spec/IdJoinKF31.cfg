SPECIFICATION Spec
CONSTANTS
  MaxXfers = 2
  MaxMid = 0
  Sources <- OnlyS
  Emit = FALSE
INVARIANT KF31Gone
CHECK_DEADLOCK FALSE
