------------------------------- MODULE OpPairs -------------------------------
(***************************************************************************)
(* Behaviour spec for properties C04 and C05: every ordered pair           *)
(* (existing operation cur, new operation new) of a menu, each valid where *)
(* it is applied.                                                          *)
(*   PickPair -> DoCommute : res = new.commute(cur)            (C04)       *)
(*   PickPair -> DoMerge   : res = new.apply(cur.apply(leaf))  (C05)       *)
(* Invariants state the laws of RA_PairLaws on the MODEL's rules for every *)
(* target; every terminal state is emitted (Binding A) and the harness     *)
(* asks the REAL code the same question, handing the real answer back to   *)
(* TLC (TracePairs).                                                       *)
(***************************************************************************)
EXTENDS RA_PairLaws, Json

CONSTANTS Mode,      \* "general" | "general2" (more targets: values 0..2) | "slices" | "sorts" | "joins"
                     \* | "custom" (user-defined RowFilter / Reordering operations with truthful flags on one side)
          SortFix,   \* TRUE: Sort.commute as fixed (F10); FALSE: pinned commit
          Clamp,     \* TRUE: Slice.then as fixed (F6); FALSE: pinned commit
          ExcludeKF, \* TRUE: open known findings are excluded from the invariants
          Emit

VARIABLES phase, cur, new, res
vars == <<phase, cur, new, res>>

TC == IF Mode = "slices" THEN {"a"} ELSE {"a", "b"}
Targets == IF Mode = "slices" THEN CountTargets(6)
           ELSE IF Mode = "general2" THEN SeqsUpTo(RowsAB(1), 3) \cup SeqsUpTo(RowsAB(2), 2)
           ELSE SeqsUpTo(RowsAB(1), 3)
LeafL == Leaf("L", "it1", TC, 0, -1)

A == Ref("a")
B == Ref("b")
C == Ref("c")

SliceMenuSmall == {Slice(0, -1), Slice(1, -1), Slice(0, 2), Slice(1, 2), Slice(2, 2), Slice(0, 0), Slice(1, 3)}
SliceMenuAll == {Slice(x, -1) : x \in 0..4} \cup {s \in {Slice(x, y) : x \in 0..4, y \in 0..6} : s.b >= s.a}
TermsAB == {Term(A, TRUE), Term(A, FALSE), Term(B, TRUE), Term(B, FALSE)}
SortListsAB == {<<>>} \cup {<<t>> : t \in TermsAB} \cup {<<t, u>> : t \in TermsAB, u \in TermsAB}

PredsOn(cols) ==
    {p \in {PLit(TRUE), PLit(FALSE), Cmp("lt", A, B), Cmp("eq", A, Lit(0)),
            In(B, Range(0, 2, 1)), And(<<Cmp("gt", A, Lit(0)), Cmp("le", B, Lit(1))>>),
            Or(<<Cmp("eq", A, Lit(1)), Cmp("eq", B, Lit(0))>>),
            Cmp("lt", C, Lit(1)), And(<<PLit(TRUE), Cmp("ge", C, B)>>), Cmp("ne", A, Lit(1)),
            \* predicates that fold to a constant but still name a column
            And(<<Cmp("lt", C, Lit(1)), PLit(FALSE)>>), Or(<<Cmp("lt", C, Lit(1)), PLit(TRUE)>>),
            Not(Or(<<PLit(TRUE), Cmp("lt", B, Lit(1))>>)),
            \* the operands of the disjunction / conjunction above as selections of their own
            Cmp("eq", A, Lit(1)), Cmp("eq", B, Lit(0)), Cmp("gt", A, Lit(0)),
            \* membership in a DESCENDING non-empty range (members 1, 0), plain, negated and inside an OR
            In(A, Range(1, -1, -1)), Not(In(B, Range(1, -1, -1))),
            Or(<<Not(In(A, Range(1, -1, -1))), Cmp("eq", B, Lit(1))>>)}
       : ReqP(p) \subseteq cols}

SortsOn(cols) ==
    {s \in {<<>>, <<Term(A, TRUE)>>, <<Term(A, FALSE)>>, <<Term(B, TRUE), Term(A, FALSE)>>,
            <<Term(A, TRUE), Term(A, FALSE)>>, <<Term(B, FALSE)>>, <<Term(Fn("add", <<A, B>>), TRUE)>>,
            <<Term(C, FALSE)>>, <<Term(C, TRUE), Term(A, TRUE)>>}
       : (UNION {ReqE(s[i].e) : i \in DOMAIN s}) \subseteq cols}

CalcsOn(cols, tag) ==
    {Calc(tag, e) : e \in {e \in {Fn("add", <<A, B>>), A, Fn("neg", <<B>>), Fn("add", <<C, Lit(1)>>), Fn("mul", <<B, B>>)}
                            : ReqE(e) \subseteq cols}}

MenuOn(cols, tag) ==
    IF Mode = "slices" THEN SliceMenuAll
    ELSE IF Mode = "sorts" THEN {Sort(s) : s \in SortListsAB}
    ELSE CalcsOn(cols, tag)
           \cup {Proj(cs) : cs \in SUBSET cols}
           \cup {Sel(p) : p \in PredsOn(cols)}
           \cup {Dedup}
           \cup {Sort(s) : s \in SortsOn(cols)}
           \cup SliceMenuSmall

\* a calculation that re-creates a column the existing projection dropped (valid above the
\* projection; the tag still exists below it)
Recreate(c) == IF Mode \in {"general", "general2"} /\ c.o = "proj"
               THEN {Calc(t, Fn("neg", <<Ref(x)>>)) : t \in TC \ c.cols, x \in c.cols}
               ELSE {}
\* mode "joins": the NEW operation is a partial join (as Relation.join / Join.partial build it, common
\* columns resolved against the relation it is applied to) with one of four fixed operands
\* the fifth fixed operand is a deduplication projected onto one column: "deduplicated", yet with duplicate rows
FixedLeaves == {FLeaf("F1", {"a", "c"}), FLeaf("F2", {"b", "c"}), FLeaf("F3", {"a", "b"}), FLeaf("F4", {"c"}),
                Un(Proj({"c"}), Un(Dedup, FLeaf("F1", {"a", "c"})))}
JoinPredsFor(cols, f) == {q \in {PLit(TRUE), Cmp("le", A, C), Cmp("lt", B, C)} : ReqP(q) \subseteq cols \cup Cols(f)}
\* ... and, with the trivial predicate, as Join().partial(fixed) leaves it when commute() is asked directly:
\* common columns not resolved yet (res = FALSE)
PJoinsOn(cols) ==
    UNION {{[o |-> "pjoin", fixed |-> f, p |-> p, common |-> {x \in cols \cap Cols(f) : IsKey(x)}, res |-> TRUE, lhs |-> side] :
               side \in BOOLEAN, p \in JoinPredsFor(cols, f)}
           \cup {[o |-> "pjoin", fixed |-> f, p |-> PLit(TRUE), common |-> {}, res |-> FALSE, lhs |-> FALSE]} : f \in FixedLeaves}
JoinCurMenu == {op \in CalcsOn(TC, "d") \cup {Proj(cs) : cs \in SUBSET TC} \cup {Sel(p) : p \in PredsOn(TC)} \cup {Dedup}
                        \cup {Sort(s) : s \in SortsOn(TC)} \cup SliceMenuSmall : TRUE}
\* mode "custom": one side is an operation of the extension API, the other side ranges over the general menu
CustMenu == {Cust(f) : f \in CustNames}
GeneralOn(cols, tag) ==
    CalcsOn(cols, tag) \cup {Proj(cs) : cs \in SUBSET cols} \cup {Sel(p) : p \in PredsOn(cols)} \cup {Dedup}
        \cup {Sort(s) : s \in SortsOn(cols)} \cup SliceMenuSmall
CustOn(cols) == {c \in CustMenu : ReqOp(c) \subseteq cols}
Init == /\ phase = "pick"
        /\ IF Mode = "joins"
           THEN cur \in JoinCurMenu /\ new \in PJoinsOn(OpCols(cur, TC))
           ELSE IF Mode = "custom"
           THEN \/ cur \in CustMenu /\ new \in GeneralOn(TC, "d") \cup CustMenu
                \/ cur \in GeneralOn(TC, "c") /\ new \in CustOn(OpCols(cur, TC))
           ELSE cur \in MenuOn(TC, "c") /\ new \in MenuOn(OpCols(cur, TC), "d") \cup Recreate(cur)
        /\ res = NoneOp

CurNode == Un(cur, LeafL)

DoCommute == /\ phase = "pick"
             /\ ~IsNoOp(cur, TC)             \* cur is a node of an existing tree
             /\ phase' = "commuted"
             /\ res' = IF Mode = "joins" THEN CommuteX(new, CurNode) ELSE CommuteG(new, cur, TC, SortFix)
             /\ UNCHANGED <<cur, new>>

MergeOnce(op, t) ==     \* op.apply(t) inside one iteration engine, with this config's Slice.then
    LET b == BeginApply(op, t, "none") IN
    IF IsErr(b) THEN b
    ELSE IF Clamp THEN AppendUnary(b.op, t)
    ELSE \* pinned-commit variant of _finish_apply (only Slice.then differs)
         IF IsNoOp(b.op, Cols(t)) THEN t
         ELSE LET s == IF t.k = "un" THEN SimplifyG(b.op, t.op, FALSE) ELSE NoSimp IN
              IF IsErr(s) THEN s ELSE IF s.some THEN (IF s.op = t.op THEN t ELSE FinishApply(s.op, t.t))
              ELSE Un(b.op, t)

DoMerge == /\ phase = "pick" /\ Mode # "joins"
           /\ phase' = "merged"
           /\ res' = Bind(MergeOnce(cur, LeafL), LAMBDA t : MergeOnce(new, t))
           /\ UNCHANGED <<cur, new>>

Next == DoCommute \/ DoMerge
Spec == Init /\ [][Next]_vars

(* ---------------- invariants ---------------- *)
CommuteSound ==
    phase = "commuted" =>
        \/ ExcludeKF /\ KF_ProjPastDedup(new, cur)
        \/ CommuteLaw(new, cur, res, TC, Targets)

\* companion: the excluded class still violates (expected to FAIL; drives KNOWN-FINDING)
KF2StillViolates ==
    (phase = "commuted" /\ KF_ProjPastDedup(new, cur) /\ res.first.o # "none")
        => CommuteLaw(new, cur, res, TC, Targets)

MergeSound == phase = "merged" => MergeLaw(new, cur, res, Targets)

EmitState ==
    (Emit /\ phase # "pick") =>
        PrintT(<<"ST", ToJson([phase |-> phase, mode |-> Mode, tc |-> TC, cur |-> cur, new |-> new,
                               res |-> res,
                               fired |-> IF phase = "merged" THEN Merged(res) ELSE res.first.o # "none"])>>)
=============================================================================
