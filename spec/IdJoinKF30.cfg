SPECIFICATION Spec
CONSTANTS
  MaxXfers = 2
  MaxMid = 0
  Sources <- BothSrc
  Emit = FALSE
  FixF30 <- FixOff
INVARIANT WF
INVARIANT Content
CHECK_DEADLOCK FALSE
