SPECIFICATION Spec
CONSTANTS
  MaxXfers = 2
  MaxMid = 0
  Emit = FALSE
  FixF30 <- FixOff
INVARIANT WF
INVARIANT Content
CHECK_DEADLOCK FALSE
