SPECIFICATION Spec
CONSTANTS
  Mode = "joins"
  SortFix = TRUE
  Clamp = TRUE
  ExcludeKF = TRUE
  Emit = FALSE
  FixF26 <- FixOff
INVARIANT CommuteSound
CHECK_DEADLOCK FALSE
