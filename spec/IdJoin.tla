------------------------------- MODULE IdJoin -------------------------------
(***************************************************************************)
(* Behaviour spec: JOIN-IDENTITY relations under transfers, joined with a  *)
(* fixed operand under every explicit preferred-engine option.             *)
(*                                                                         *)
(* The join-identity short cut of Join._begin_apply hands back the OTHER   *)
(* operand, which may live in another engine than the identity relation.   *)
(* Backtracking re-wraps whatever the upstream application returned in     *)
(* the transfers it walked through (finding F28: a transfer from an engine *)
(* to itself).                                                             *)
(*                                                                         *)
(*   state    ei     engine of the identity leaf I (zero columns, one row) *)
(*            ef     engine of the fixed leaf F {a, c}                     *)
(*            hist   transfers applied to I so far, then the final join    *)
(*            rel    the tree the MODEL's rules build                      *)
(*   actions  Transfer(dest)     rel.transferred_to(dest)                  *)
(*            FinalJoin          Join(p).partial(F, is_lhs).apply(rel,     *)
(*                                 preferred_engine, backtrack, transfer)  *)
(*   checked  WF (C14), Content (C03): an accepted result is well-formed,  *)
(*            has F's columns and denotes F's rows                         *)
(***************************************************************************)
EXTENDS RA_SqlSem, Json

CONSTANTS MaxXfers, MaxMid, Emit

VARIABLES ei, ef, fk, hist, rel, final
vars == <<ei, ef, fk, hist, rel, final>>

Engines == {"sql", "it1", "it2"}
FRows == <<[a |-> 0, c |-> 1], [a |-> 1, c |-> 0], [a |-> 1, c |-> 1]>>
Env == [I |-> << <<>> >>, F |-> FRows, U |-> <<[a |-> 1]>>]

Wrap(leaf) == IF KindOf(leaf.eng) = "sql" THEN PlainSel(leaf) ELSE leaf
LeafI(e) == Wrap(Leaf("I", e, {}, 1, 1))
LeafF(e) == Wrap(Leaf("F", e, {"a", "c"}, 3, 3))
\* the second kind of fixed operand: a relation that is a join identity only by virtue of a zero-column
\* projection of a one-row leaf (finding F30)
UnitU(e) == ApplyUnary(Proj({}), Wrap(Leaf("U", e, {"a"}, 1, 1)), DefaultOpts)
Fixed == IF fk = "F" THEN LeafF(ef) ELSE UnitU(ef)
FixedRows == IF fk = "F" THEN FRows ELSE << <<>> >>
FixedCols == IF fk = "F" THEN {"a", "c"} ELSE {}

Init == /\ ei \in Engines /\ ef \in Engines /\ fk \in {"F", "U"}
        /\ hist = <<>> /\ rel = LeafI(ei) /\ final = FALSE

Transfer == /\ ~final
            /\ Cardinality({i \in DOMAIN hist : hist[i].f = "xfer"}) < MaxXfers
            /\ \E dest \in Engines \ {Eng(rel)} :
                 LET r == TransferTo(rel, dest) IN
                 /\ ~IsErr(r)
                 /\ rel' = r /\ hist' = Append(hist, [f |-> "xfer", dest |-> dest])
            /\ UNCHANGED <<ei, ef, fk, final>>

\* operations that keep a join identity a join identity (one row, no columns): they put operation
\* nodes and a locked materialization between the identity leaf, the transfers and the final join
Mid == /\ ~final /\ Cardinality({i \in DOMAIN hist : hist[i].f # "xfer"}) < MaxMid
       /\ \E c \in {[f |-> "un", op |-> Dedup], [f |-> "un", op |-> Slice(0, 1)], [f |-> "mat", name |-> "m1"]} :
            LET r == IF c.f = "mat" THEN Materialize(rel, c.name) ELSE ApplyUnary(c.op, rel, DefaultOpts) IN
            /\ ~IsErr(r) /\ r # rel
            /\ rel' = r /\ hist' = Append(hist, c)
       /\ UNCHANGED <<ei, ef, fk, final>>

JoinCalls == {[f |-> "pjoin", lhs |-> side, pref |-> p, backtrack |-> bt, transfer |-> tr] :
                 side \in BOOLEAN, p \in Engines \cup {"none"}, bt \in BOOLEAN, tr \in BOOLEAN}
JoinResult(c, r) ==
    ApplyUnary(IF c.lhs THEN PJoinL(Fixed, PLit(TRUE)) ELSE PJoin(Fixed, PLit(TRUE)), r,
               Opts(c.pref, c.backtrack, c.transfer, FALSE))

FinalJoin == /\ ~final
             /\ \E c \in JoinCalls :
                  LET r == JoinResult(c, rel) IN
                  /\ ~IsErr(r)
                  /\ rel' = r /\ hist' = Append(hist, c)
             /\ final' = TRUE
             /\ UNCHANGED <<ei, ef, fk>>

Next == Transfer \/ Mid \/ FinalJoin
Spec == Init /\ [][Next]_vars

WF == WellFormed(rel)
Content == final => /\ Cols(rel) = FixedCols
                    /\ SameBag(Den(rel, Env), FixedRows)
\* requests the model refuses in the current state (with the error class)
Refused == IF final THEN {} ELSE {[call |-> c, err |-> JoinResult(c, rel).err] : c \in {x \in JoinCalls : IsErr(JoinResult(x, rel))}}

EmitState ==
    Emit => PrintT(<<"ST", ToJson([ei |-> ei, ef |-> ef, fk |-> fk, hist |-> hist, tree |-> rel, final |-> final,
                                   rows |-> IF final THEN FixedRows ELSE << <<>> >>, refused |-> Refused,
                                   fired |-> final])>>)
=============================================================================
