------------------------------- MODULE IdJoin -------------------------------
(***************************************************************************)
(* Behaviour spec: JOIN-IDENTITY relations under transfers, joined with a  *)
(* fixed operand under every explicit preferred-engine option.             *)
(*                                                                         *)
(* The join-identity short cut of Join._begin_apply hands back the OTHER   *)
(* operand, which may live in another engine than the identity relation.   *)
(* Backtracking re-wraps whatever the upstream application returned in     *)
(* the transfers it walked through (finding F28: a transfer from an engine *)
(* to itself).                                                             *)
(*                                                                         *)
(*   state    ei     engine of the identity leaf I (zero columns, one row) *)
(*            ef     engine of the fixed leaf F {a, c}                     *)
(*            hist   transfers applied to I so far, then the final join    *)
(*            rel    the tree the MODEL's rules build                      *)
(*   actions  Transfer(dest)     rel.transferred_to(dest)                  *)
(*            FinalJoin          Join(p).partial(F, is_lhs).apply(rel,     *)
(*                                 preferred_engine, backtrack, transfer)  *)
(*   checked  WF (C14), Content (C03): an accepted result is well-formed,  *)
(*            has F's columns and denotes F's rows                         *)
(***************************************************************************)
EXTENDS RA_SqlSem, Json

CONSTANTS MaxXfers, MaxMid, Sources, Emit

VARIABLES ei, ef, fk, src, hist, rel, prev, final
vars == <<ei, ef, fk, src, hist, rel, prev, final>>

Engines == {"sql", "it1", "it2"}
FRows == <<[a |-> 0, c |-> 1], [a |-> 1, c |-> 0], [a |-> 1, c |-> 1]>>
SRows == <<[a |-> 0, b |-> 0], [a |-> 1, b |-> 1]>>
Env == [I |-> << <<>> >>, F |-> FRows, U |-> <<[a |-> 1]>>, S |-> SRows]

Wrap(leaf) == IF KindOf(leaf.eng) = "sql" THEN PlainSel(leaf) ELSE leaf
LeafI(e) == Wrap(Leaf("I", e, {}, 1, 1))
LeafF(e) == Wrap(Leaf("F", e, {"a", "c"}, 3, 3))
\* the source is the join identity I or an ordinary two-row leaf S {a, b} (src): with S the join is a real
\* one, most engine layouts are refused, and require_preferred_engine has something to forbid
LeafS(e) == Wrap(Leaf("S", e, {"a", "b"}, 2, 2))
SrcRows == IF src = "I" THEN << <<>> >> ELSE SRows
SrcCols == IF src = "I" THEN {} ELSE {"a", "b"}
\* the second kind of fixed operand: a relation that is a join identity only by virtue of a zero-column
\* projection of a one-row leaf (finding F30)
UnitU(e) == ApplyUnary(Proj({}), Wrap(Leaf("U", e, {"a"}, 1, 1)), DefaultOpts)
Fixed == IF fk = "F" THEN LeafF(ef) ELSE UnitU(ef)
FixedRows == IF fk = "F" THEN FRows ELSE << <<>> >>
FixedCols == IF fk = "F" THEN {"a", "c"} ELSE {}

Init == /\ ei \in Engines /\ ef \in Engines /\ fk \in {"F", "U"} /\ src \in Sources
        /\ hist = <<>> /\ rel = (IF src = "I" THEN LeafI(ei) ELSE LeafS(ei)) /\ prev = rel /\ final = FALSE

Transfer == /\ ~final
            /\ Cardinality({i \in DOMAIN hist : hist[i].f = "xfer"}) < MaxXfers
            /\ \E dest \in Engines \ {Eng(rel)} :
                 LET r == TransferTo(rel, dest) IN
                 /\ ~IsErr(r)
                 /\ rel' = r /\ prev' = rel /\ hist' = Append(hist, [f |-> "xfer", dest |-> dest])
            /\ UNCHANGED <<ei, ef, fk, src, final>>

\* operations that keep a join identity a join identity (one row, no columns): they put operation
\* nodes and a locked materialization between the identity leaf, the transfers and the final join
Mid == /\ ~final /\ Cardinality({i \in DOMAIN hist : hist[i].f # "xfer"}) < MaxMid
       /\ \E c \in {[f |-> "un", op |-> Dedup], [f |-> "mat", name |-> "m1"]}
                     \cup (IF src = "I" THEN {[f |-> "un", op |-> Slice(0, 1)]} ELSE {}) :
            LET r == IF c.f = "mat" THEN Materialize(rel, c.name) ELSE ApplyUnary(c.op, rel, DefaultOpts) IN
            /\ ~IsErr(r) /\ r # rel
            /\ rel' = r /\ prev' = rel /\ hist' = Append(hist, c)
       /\ UNCHANGED <<ei, ef, fk, src, final>>

JoinCalls == {[f |-> "pjoin", lhs |-> side, pref |-> p, backtrack |-> bt, transfer |-> tr, require |-> rq] :
                 side \in BOOLEAN, p \in Engines \cup {"none"}, bt \in BOOLEAN, tr \in BOOLEAN,
                 rq \in (IF src = "S" THEN BOOLEAN ELSE {FALSE})}
JoinResult(c, r) ==
    ApplyUnary(IF c.lhs THEN PJoinL(Fixed, PLit(TRUE)) ELSE PJoin(Fixed, PLit(TRUE)), r,
               Opts(c.pref, c.backtrack, c.transfer, c.require))

FinalJoin == /\ ~final
             /\ \E c \in JoinCalls :
                  LET r == JoinResult(c, rel) IN
                  /\ ~IsErr(r)
                  /\ rel' = r /\ prev' = rel /\ hist' = Append(hist, c)
             /\ final' = TRUE
             /\ UNCHANGED <<ei, ef, fk, src>>

Next == Transfer \/ Mid \/ FinalJoin
Spec == Init /\ [][Next]_vars

WF == WellFormed(rel)
CommonKeys == {c \in SrcCols \cap FixedCols : IsKey(c)}
WantRows == IF src = "I" THEN FixedRows ELSE JoinRows(SrcRows, FixedRows, CommonKeys, PLit(TRUE))
Content == final => /\ Cols(rel) = SrcCols \cup FixedCols
                    /\ (BagDet(rel, Env) /\ BagDet(rel, RevEnv(Env))) => SameBag(Den(rel, Env), WantRows)

\* C03: with require_preferred_engine (and no transfer) the call adds no operation outside the preferred engine
RECURSIVE OpsOutside(_, _)
OpsOutside(t, e) ==
    CASE t.k = "leaf" -> 0
      [] t.k = "un"   -> OpsOutside(t.t, e) + (IF Eng(t) # e THEN 1 ELSE 0)
      [] t.k = "bin"  -> OpsOutside(t.l, e) + OpsOutside(t.r, e) + (IF Eng(t) # e THEN 1 ELSE 0)
      [] t.k \in {"xfer", "mat"} -> OpsOutside(t.t, e)
      [] t.k = "sel"  -> OpsOutside(t.skip, e) + (IF Eng(t) # e THEN Len(SelOps(t)) ELSE 0)
LastCall == hist[Len(hist)]
Honoured == LET c == LastCall IN
            (c.require /\ ~c.transfer /\ c.pref # "none") => OpsOutside(rel, c.pref) <= OpsOutside(prev, c.pref) + OpsOutside(Fixed, c.pref)
\* open finding F31: a partial join requested with an explicit preferred engine that is NOT the fixed
\* operand's engine: backtracking re-enters apply() with the partial join's own default (the fixed
\* operand's engine) and puts the join there, although another engine was required
KF31Match == LET c == LastCall IN c.require /\ ~c.transfer /\ c.pref # "none" /\ c.pref # ef
RequireHonoured == final => (Honoured \/ KF31Match)
\* companion (expected to FAIL): the excluded class still violates
KF31Gone == final => (KF31Match => Honoured)
KF31Hit == final /\ KF31Match /\ ~Honoured
\* requests the model refuses in the current state (with the error class)
Refused == IF final THEN {} ELSE {[call |-> c, err |-> JoinResult(c, rel).err] : c \in {x \in JoinCalls : IsErr(JoinResult(x, rel))}}

EmitState ==
    Emit => PrintT(<<"ST", ToJson([ei |-> ei, ef |-> ef, fk |-> fk, src |-> src, kf31 |-> KF31Hit, hist |-> hist, tree |-> rel, final |-> final,
                                   rows |-> IF final THEN WantRows ELSE SrcRows, refused |-> Refused,
                                   fired |-> final])>>)
=============================================================================
