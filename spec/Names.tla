-------------------------------- MODULE Names --------------------------------
(***************************************************************************)
(* Property C19: names handed out by GenericConcreteEngine.get_relation_   *)
(* name are pairwise distinct over any interleaving of requests from       *)
(* several threads on one or more engines.                                 *)
(*                                                                         *)
(* The code (no lock):                                                     *)
(*   name = f"{prefix}_{self.relation_name_counter:04d}_{uuid.uuid4().hex}" *)
(*   self.relation_name_counter += 1                                       *)
(* i.e. per request three accesses of the per-engine counter:              *)
(*   Read1 (into the name), Read2 and Write (the non-atomic += 1).         *)
(* A name is <<prefix, counter value read, unique part>>.  UseUuid = TRUE  *)
(* models the uuid4 component as a globally fresh value (ASSUMPTION: uuid4 *)
(* draws do not collide); the companion configuration with UseUuid = FALSE *)
(* must FAIL: the counter alone does not make names unique (lost updates   *)
(* within an engine, equal counters across engines).                       *)
(***************************************************************************)
EXTENDS Integers, Sequences, FiniteSets, TLC, Json

CONSTANTS Threads,      \* set of thread ids (integers)
          EngineOf,     \* thread -> engine id
          Requests,     \* requests per thread
          UseUuid, Emit

VARIABLES counter,  \* engine -> Nat
          pc,       \* thread -> "read1" | "read2" | "write" | "done"
          done,     \* thread -> number of completed requests
          r1, r2,   \* thread-local registers
          names,    \* sequence of names handed out, in completion order
          fresh,    \* next unique value
          myu,      \* thread -> the unique value drawn for the current request
          sched     \* history: sequence of thread ids, one per step
vars == <<counter, pc, done, r1, r2, names, fresh, myu, sched>>

Engines == {EngineOf[t] : t \in Threads}

Init == /\ counter = [e \in Engines |-> 0]
        /\ pc = [t \in Threads |-> "read1"]
        /\ done = [t \in Threads |-> 0]
        /\ r1 = [t \in Threads |-> 0] /\ r2 = [t \in Threads |-> 0]
        /\ names = <<>> /\ fresh = 1
        /\ myu = [t \in Threads |-> 0]
        /\ sched = <<>>

Read1(t) == /\ pc[t] = "read1"
            /\ r1' = [r1 EXCEPT ![t] = counter[EngineOf[t]]]
            /\ myu' = [myu EXCEPT ![t] = IF UseUuid THEN fresh ELSE 0]
            /\ fresh' = fresh + 1
            /\ pc' = [pc EXCEPT ![t] = "read2"]
            /\ sched' = Append(sched, t)
            /\ UNCHANGED <<counter, done, r2, names>>

Read2(t) == /\ pc[t] = "read2"
            /\ r2' = [r2 EXCEPT ![t] = counter[EngineOf[t]]]
            /\ pc' = [pc EXCEPT ![t] = "write"]
            /\ sched' = Append(sched, t)
            /\ UNCHANGED <<counter, done, r1, names, fresh, myu>>

Write(t) == /\ pc[t] = "write"
            /\ counter' = [counter EXCEPT ![EngineOf[t]] = r2[t] + 1]
            /\ names' = Append(names, <<"leaf", r1[t], myu[t]>>)
            /\ done' = [done EXCEPT ![t] = done[t] + 1]
            /\ pc' = [pc EXCEPT ![t] = IF done[t] + 1 < Requests THEN "read1" ELSE "done"]
            /\ sched' = Append(sched, t)
            /\ UNCHANGED <<r1, r2, fresh, myu>>

Next == \E t \in Threads : Read1(t) \/ Read2(t) \/ Write(t)
Spec == Init /\ [][Next]_vars

Unique == \A i, j \in DOMAIN names : i # j => names[i] # names[j]
Prefixed == \A i \in DOMAIN names : names[i][1] = "leaf"
\* the counter never exceeds the number of completed requests on that engine
CounterBounded == \A e \in Engines : counter[e] <= Cardinality({i \in DOMAIN names : TRUE})

AllDone == \A t \in Threads : pc[t] = "done"
EmitState ==
    (Emit /\ AllDone) =>
        PrintT(<<"ST", ToJson([sched |-> sched, counter |-> counter, nnames |-> Len(names),
                               engineOf |-> EngineOf, requests |-> Requests,
                               lost |-> \E e \in Engines : counter[e] < Cardinality({t \in Threads : EngineOf[t] = e}) * Requests])>>)
=============================================================================
