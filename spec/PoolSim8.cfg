SPECIFICATION Spec
CONSTANTS
  MaxLen = 8
  MaxPool = 9
  Emit = TRUE
INVARIANT ContentKept
INVARIANT EmitState
PROPERTY Persistent
CHECK_DEADLOCK FALSE
