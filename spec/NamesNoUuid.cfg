SPECIFICATION Spec
CONSTANTS
  Threads <- T2
  EngineOf <- TwoEngines2
  Requests = 1
  UseUuid = FALSE
  Emit = FALSE
INVARIANT Unique
CHECK_DEADLOCK FALSE
