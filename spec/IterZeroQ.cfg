SPECIFICATION Spec
CONSTANTS
  Contents <- ZeroRows
  BoundModes <- BM4
  Schema = "ZERO"
  MaxDepth = 2
  Rich = FALSE
  EmitMin = 0
  Emit = TRUE
INVARIANT ExecMatches
INVARIANT DenMatches
INVARIANT MetaTruthful
INVARIANT WF
INVARIANT DiagSound
INVARIANT LazyPromise
INVARIANT RejectsAll
INVARIANT EmitState
PROPERTY NoOpIdentity
CHECK_DEADLOCK FALSE
