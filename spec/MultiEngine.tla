------------------------------ MODULE MultiEngine ------------------------------
(***************************************************************************)
(* Behaviour spec: trees spanning a SQL engine and two iteration engines.  *)
(*                                                                         *)
(*   state    src       engine of the source leaf L ("sql" or "it1")       *)
(*            l1        contents of L {a,b}                                *)
(*            hist      calls so far                                       *)
(*            rel       the tree the MODEL builds                          *)
(*            ref       reference rows (naive semantics of the calls)      *)
(*            prev      the tree before the last call (for action checks)  *)
(*            final     TRUE once a call with explicit preferred-engine    *)
(*                      options has been made (terminal)                   *)
(*   actions  Base     default-option calls: unary ops, transfer to any    *)
(*                     engine, materialization                             *)
(*            Final    ONE call valid at the root with EVERY combination   *)
(*                     of preferred engine x backtrack x transfer x        *)
(*                     require_preferred_engine; join with a SQL leaf T2   *)
(*                     with every backtrack/transfer combination           *)
(*   checked in every state                                                *)
(*     ContentKept   C03/C15  Den(rel) = ref (list when the list is        *)
(*                   determined, bag when the bag is)                      *)
(*     ColumnsKept   C03      columns = columns of the naive application   *)
(*     WF            C14      engine consistency / well-formedness         *)
(*     MetaTruthful  C06                                                   *)
(*   and on every step (action properties)                                 *)
(*     LockedKept    C15      locked nodes of the old tree reappear        *)
(*                            unchanged (nothing inserted upstream)        *)
(*     OptionsHonoured C03    transfer => result in the preferred engine   *)
(*                            (unless backtracking fully succeeded);       *)
(*                            require => no new operation outside it       *)
(*     NoOpIdentity  C14/C15  no-op calls return the relation itself       *)
(*   requests the model refuses are emitted with their error class (C20).  *)
(***************************************************************************)
EXTENDS RA_SqlSem, RA_Diag, RA_Proc, Json

CONSTANTS Contents, Sources, BaseDepth, FinalOps, Starts, Emit

VARIABLES src, l1, hist, rel, ref, prev, final
vars == <<src, l1, hist, rel, ref, prev, final>>

A == Ref("a")
B == Ref("b")
CC == Ref("c")
D == Ref("d")

T2Rows == <<[a |-> 0, c |-> 1], [a |-> 1, c |-> 0], [a |-> 1, c |-> 1]>>
LeafT2 == Leaf("T2", "sql", {"a", "c"}, 0, -1)
\* the fixed operand of the final join: the bare SQL leaf, or its deduplication projected to {a}
\* (a "deduplicated" relation that does have duplicate rows)
\* ... or the SQL engine's own join-identity relation (no columns, one row)
LeafI == Leaf("I", "sql", {}, 1, 1)
FixedTree(n) == CASE n = "T2" -> PlainSel(LeafT2)
                  [] n = "I" -> PlainSel(LeafI)
                  [] OTHER -> ApplyUnary(Proj({"a"}), ApplyUnary(Dedup, PlainSel(LeafT2), DefaultOpts), DefaultOpts)
FixedRows(n) == CASE n = "T2" -> T2Rows [] n = "I" -> << <<>> >> [] OTHER -> ApplyOp(Proj({"a"}), ApplyOp(Dedup, T2Rows))
FixedCols(n) == CASE n = "T2" -> {"a", "c"} [] n = "I" -> {} [] OTHER -> {"a"}
LeafL(e, rows) == Leaf("L", e, {"a", "b"}, Len(rows), Len(rows))
Engines == {"sql", "it1", "it2"}
Env == [L |-> l1, T2 |-> T2Rows, I |-> << <<>> >>]

TotalAB == <<Term(A, TRUE), Term(B, FALSE)>>

BaseOps == {Proj({"a"}), Proj({"b"}), Sel(Cmp("eq", A, Lit(1))), Dedup, Sort(TotalAB), Sort(<<Term(B, TRUE)>>),
            Slice(0, 2), Slice(1, -1), Calc("d", Fn("add", <<A, B>>))}

AllFinalOps ==
    {Calc("e", Fn("neg", <<A>>)), Calc("e", Fn("add", <<A, D>>)),
     Calc("b", Fn("neg", <<A>>)),      \* re-creates a column an earlier projection dropped (valid only then)
     Proj({"a"}), Proj({"b"}), Proj({"a", "d"}), Proj({}), Proj({"a", "b"}),
     Sel(Cmp("eq", A, Lit(0))), Sel(Cmp("lt", B, A)), Sel(Cmp("gt", D, Lit(0))), Sel(PLit(FALSE)),
     Dedup,
     Sort(<<Term(A, FALSE)>>), Sort(TotalAB), Sort(<<Term(D, TRUE), Term(A, TRUE)>>),
     Slice(0, 1), Slice(1, 3)}
\* the documented no-op forms, issued with every option combination as well
NoOpForms(cols) == {Sort(<<>>), Slice(0, -1), Proj(cols), Sel(PLit(TRUE))}
HasSortInHist == \E i \in DOMAIN hist : hist[i].f = "un" /\ hist[i].op.o = "sort"
FinalMenu(cols) == {op \in (IF FinalOps = "all" THEN AllFinalOps
                            ELSE {Calc("e", Fn("neg", <<A>>)), Calc("b", Fn("neg", <<A>>)), Proj({"a"}), Proj({"b"}), Proj({"a", "b"}), Sel(Cmp("eq", A, Lit(0))), Dedup,
                                  Sort(TotalAB), Slice(0, 1)})
                      : /\ BeginErr(op, cols) = "none" /\ ~(op.o = "calc" /\ op.tag \in cols)
                        \* re-creating a dropped tag while a recorded sort may still name it is the documented
                        \* misuse F11 (column tags are absolute identifiers): not requested after a sort, nor on a
                        \* SQL relation (whose Select puts the calculation BELOW the recorded projection)
                        /\ ~(op.o = "calc" /\ op.tag = "b" /\ (HasSortInHist \/ KindOf(Eng(rel)) = "sql"))}
                     \cup NoOpForms(cols)

NCalcs(h) == Cardinality({i \in DOMAIN h : h[i].f = "un" /\ h[i].op.o = "calc"})
NMats(h) == Cardinality({i \in DOMAIN h : h[i].f = "mat"})

AllOpts == {Opts(p, bt, tr, rq) : p \in Engines, bt \in BOOLEAN, tr \in BOOLEAN, rq \in BOOLEAN}

CallResult(c, r) ==
    CASE c.f = "un"   -> IF CtorErr(c.op) # "none" THEN Err(CtorErr(c.op)) ELSE ApplyUnary(c.op, r, c.opts)
      [] c.f = "xfer" -> TransferTo(r, c.dest)
      [] c.f = "mat"  -> Materialize(r, c.name)
      [] c.f = "join" -> JoinRel(r, FixedTree(c.fixed), c.p, c.backtrack, c.transfer)
      \* Join(p).partial(fixed, is_lhs=True).apply(r, ...): the fixed operand on the LEFT
      [] c.f = "pjoinl" -> JoinRelL(FixedTree(c.fixed), r, c.p, c.backtrack, c.transfer)
      [] c.f = "chainself" -> ApplyBinary(ChainOp, r, r)

CallRows(c, r, rows) ==
    CASE c.f = "un" -> ApplyOp(c.op, rows)
      [] c.f = "join" -> JoinRows(rows, FixedRows(c.fixed), {x \in Cols(r) \cap FixedCols(c.fixed) : IsKey(x)}, c.p)
      [] c.f = "pjoinl" -> JoinRows(FixedRows(c.fixed), rows, {x \in Cols(r) \cap FixedCols(c.fixed) : IsKey(x)}, c.p)
      [] c.f = "chainself" -> rows \o rows
      [] OTHER -> rows

\* user-defined operations of the extension API (RA_Ops!Cust), applied in iteration engines only; a
\* configuration switches them on (the final call is then backtracked past them on the strength of their flags)
CustomOn == FALSE
CustBaseCalls(r) ==
    IF CustomOn /\ KindOf(Eng(r)) = "iter"
    THEN {[f |-> "un", op |-> c, opts |-> DefaultOpts] : c \in {x \in {Cust(f) : f \in CustNames} : ReqOp(x) \subseteq Cols(r)}}
    ELSE {}
BaseCalls(r, h) ==
    CustBaseCalls(r) \cup
    {[f |-> "un", op |-> op, opts |-> DefaultOpts] :
        op \in {o \in BaseOps : BeginErr(o, Cols(r)) = "none" /\ ~(o.o = "calc" /\ NCalcs(h) > 0)}}
      \cup {[f |-> "xfer", dest |-> e] : e \in Engines}
      \cup (IF NMats(h) < 2 THEN {[f |-> "mat", name |-> IF NMats(h) = 0 THEN "m1" ELSE "m2"]} ELSE {})
      \* the relation chained with itself (both branches come from the same source engine)
      \cup (IF \E i \in DOMAIN h : h[i].f = "chainself" THEN {} ELSE {[f |-> "chainself"]})

FinalCalls(r) ==
    {[f |-> "un", op |-> op, opts |-> o] : op \in FinalMenu(Cols(r)), o \in AllOpts}
      \cup {[f |-> jf, fixed |-> "T2", p |-> p, backtrack |-> bt, transfer |-> tr] : jf \in {"join", "pjoinl"},
              p \in {q \in {PLit(TRUE), Cmp("le", A, CC), Cmp("le", D, CC)} : ReqP(q) \subseteq Cols(r) \cup {"a", "c"}},
              bt \in BOOLEAN, tr \in BOOLEAN}
      \cup {[f |-> "join", fixed |-> "T2pd", p |-> PLit(TRUE), backtrack |-> bt, transfer |-> tr] : bt \in BOOLEAN, tr \in BOOLEAN}
      \cup {[f |-> jf, fixed |-> "I", p |-> PLit(TRUE), backtrack |-> bt, transfer |-> tr] : jf \in {"join", "pjoinl"}, bt \in BOOLEAN, tr \in BOOLEAN}

\* Starts \subseteq {"none", "calc", "xmat"}: pre-seeded histories that do not
\* count against the depth bound - "calc": a calculated column d at the source
\* (three columns at depth 0); "xmat": transfer to it1 followed by a
\* materialization (a locked node in the middle of longer transfer chains)
StartCall == [f |-> "un", op |-> Calc("d", Fn("add", <<A, B>>)), opts |-> DefaultOpts]
XSelCall == [f |-> "un", op |-> Sel(Cmp("eq", A, Lit(1))), opts |-> DefaultOpts]
StartHist(st) == CASE st = "none" -> <<>>
                   [] st = "calc" -> <<StartCall>>
                   [] st = "xmat" -> <<[f |-> "xfer", dest |-> "it1"], [f |-> "mat", name |-> "m1"]>>
                   \* "xsel": a selection on column a downstream of a transfer (an operation that READS a column
                   \* a later projection may hide and a joined relation may provide again)
                   [] st = "xsel" -> <<[f |-> "xfer", dest |-> "it1"], XSelCall>>
RECURSIVE RunCalls(_, _, _)
RunCalls(h, r, rows) ==      \* [t, rows] after the calls of h
    IF h = <<>> THEN [t |-> r, rows |-> rows]
    ELSE RunCalls(Tail(h), CallResult(Head(h), r), CallRows(Head(h), r, rows))
Init == /\ src \in Sources
        /\ l1 \in Contents
        /\ \E st \in Starts :
             /\ (st \in {"xmat", "xsel"} => src = "sql")       \* for an it1 source the pre-seeded transfer would be a no-op
             /\ LET leaf == IF src = "sql" THEN PlainSel(LeafL(src, l1)) ELSE LeafL(src, l1)
                 run == RunCalls(StartHist(st), leaf, l1) IN
                /\ hist = StartHist(st)
                /\ rel = run.t
                /\ ref = run.rows
        /\ prev = rel
        /\ final = FALSE
NStart == IF hist # <<>> /\ hist[1] = StartCall THEN 1
          ELSE IF Len(hist) >= 2 /\ hist[1].f = "xfer" /\ hist[2].f = "mat" /\ hist[2].name = "m1" /\ hist[1].dest = "it1" THEN 2
          ELSE IF Len(hist) >= 2 /\ hist[1].f = "xfer" /\ hist[1].dest = "it1" /\ hist[2] = XSelCall THEN 2
          ELSE 0

Base == /\ ~final /\ Len(hist) < BaseDepth + NStart
        /\ \E c \in BaseCalls(rel, hist) :
              LET r == CallResult(c, rel) IN
              /\ ~IsErr(r)
              /\ rel' = r /\ prev' = rel
              /\ ref' = CallRows(c, rel, ref)
              /\ hist' = Append(hist, c)
        /\ UNCHANGED <<src, l1, final>>

Final == /\ ~final
         /\ \E c \in FinalCalls(rel) :
              LET r == CallResult(c, rel) IN
              /\ ~IsErr(r)
              /\ rel' = r /\ prev' = rel
              /\ ref' = CallRows(c, rel, ref)
              /\ hist' = Append(hist, c)
         /\ final' = TRUE
         /\ UNCHANGED <<src, l1>>

Next == Base \/ Final
Spec == Init /\ [][Next]_vars

(* ---------------- state invariants ---------------- *)
Rev == RevEnv(Env)
LDet == ListDet(rel, Env) /\ ListDet(rel, Rev)
BDet == BagDet(rel, Env) /\ BagDet(rel, Rev)

\* Open finding F2 (Projection.commute past Deduplication, pinned by the
\* repository's tests): matcher = the last call is a projection that was
\* backtracked towards another engine through a deduplication; failure
\* signature = the projection was placed upstream of that deduplication.
RECURSIVE DedupOnSpine(_)
DedupOnSpine(t) == \/ t.k = "un" /\ (t.op.o = "dedup" \/ DedupOnSpine(t.t))
                   \/ t.k = "xfer" /\ DedupOnSpine(t.t)
KF2Matcher ==
    /\ final
    /\ LET c == hist[Len(hist)] IN
         c.f = "un" /\ c.op.o = "proj" /\ c.opts.backtrack /\ c.opts.pref # Eng(prev) /\ DedupOnSpine(prev)
\* signature (mechanism level): the call narrowed the columns that reach the
\* deduplication, i.e. the projection now sits upstream of it
RECURSIVE SpineDedupCols(_)
SpineDedupCols(t) ==
    CASE t.k = "un" -> IF t.op.o = "dedup" THEN Cols(t.t) ELSE SpineDedupCols(t.t)
      [] t.k = "xfer" -> SpineDedupCols(t.t)
      [] OTHER -> {}
KF2Signature == SpineDedupCols(rel) # SpineDedupCols(prev)
KF2 == KF2Matcher /\ KF2Signature

\* a join has no row order of its own (only the SQL engine evaluates joins, and the reference lists rows
\* lhs-major only by convention): after a final join only the multiset is promised
LastIsJoin == final /\ hist # <<>> /\ hist[Len(hist)].f \in {"join", "pjoinl"}
ListPromised == LDet /\ ~LastIsJoin
ContentKept ==
    \/ KF2
    \/ /\ ListPromised => Den(rel, Env) = ref
       /\ BDet => SameBag(Den(rel, Env), ref) /\ (src = "sql" => SameBag(Den(rel, Rev), ref))

\* companion (expected to FAIL): the excluded class still violates
KF2Gone == ~KF2

RECURSIVE NaiveCols(_, _)
NaiveCols(h, cols) ==
    IF h = <<>> THEN cols
    ELSE NaiveCols(Tail(h), CASE Head(h).f = "un" -> OpCols(Head(h).op, cols)
                              [] Head(h).f \in {"join", "pjoinl"} -> cols \cup FixedCols(Head(h).fixed)
                              [] OTHER -> cols)
ColumnsKept == Cols(rel) = NaiveCols(hist, {"a", "b"})

WF == WellFormed(rel)

NodeTruthful(n, env) ==
    LET d == Den(n, env) IN
    /\ MinR(n) <= Len(d)
    /\ MaxR(n) = -1 \/ Len(d) <= MaxR(n)
    /\ \A i \in DOMAIN d : DOMAIN d[i] = Cols(n)
    /\ JoinIdentity(n) => d = << <<>> >>
    /\ MaxR(n) = 0 => d = <<>>
MetaTruthful == \A n \in Nodes(rel) : NodeTruthful(n, Env) /\ NodeTruthful(n, Rev)

(* ---------------- action properties ---------------- *)
LastCall == hist'[Len(hist')]

\* number of operation nodes that live outside engine e
RECURSIVE OpsOutside(_, _)
OpsOutside(t, e) ==
    CASE t.k = "leaf" -> 0
      [] t.k = "un"   -> OpsOutside(t.t, e) + (IF Eng(t) # e THEN 1 ELSE 0)
      [] t.k = "bin"  -> OpsOutside(t.l, e) + OpsOutside(t.r, e) + (IF Eng(t) # e THEN 1 ELSE 0)
      [] t.k \in {"xfer", "mat"} -> OpsOutside(t.t, e)
      [] t.k = "sel"  -> OpsOutside(t.skip, e) + (IF Eng(t) # e THEN Len(SelOps(t)) ELSE 0)

MatNodes(t) == {n \in Nodes(t) : n.k = "mat"}
LockedKept ==
    [][\A n \in MatNodes(rel) : \A m \in MatNodes(rel') : m.name = n.name => m = n]_vars

FullyBacktracked(c, r) ==    \* backtracking was requested and fully succeeded
    c.opts.backtrack /\ LET b == BeginApply(c.op, r, c.opts.pref) IN
                        ~IsErr(b) /\ b.pref # Eng(r) /\ LET bt == Backtrack(b.op, r, b.pref) IN ~IsErr(bt) /\ bt.done

OptionsHonoured ==
    [][(hist' # hist /\ LastCall.f = "un" /\ ~IsNoOp(LastCall.op, Cols(rel))) =>
          LET c == LastCall IN
          /\ (c.opts.transfer /\ ~FullyBacktracked(c, rel)) => Eng(rel') = c.opts.pref
          /\ (c.opts.require /\ ~c.opts.transfer) => OpsOutside(rel', c.opts.pref) <= OpsOutside(rel, c.opts.pref)
      ]_vars

IsNoOpCall(c, r) ==
    CASE c.f = "un"   -> IsNoOp(c.op, Cols(r))
      [] c.f = "xfer" -> c.dest = Eng(r)
      [] c.f = "mat"  -> Locked(IF r.k = "sel" /\ SelOps(r) = <<>> THEN r.skip ELSE r)
      [] OTHER -> FALSE
NoOpIdentity == [][(hist' # hist /\ IsNoOpCall(LastCall, rel)) => rel' = rel]_vars

\* a transfer always lands in the requested engine; round trips across unlocked
\* markers add no transfer node
\* no factory call makes a materialization (a locked node, possibly holding a
\* cached payload) of its input disappear from the result
MatsKept == [][{n.name : n \in MatNodes(rel)} \subseteq {n.name : n \in MatNodes(rel')}]_vars

XferCount(t) == Cardinality({n \in Nodes(t) : n.k = "xfer"})
TransferLands ==
    [][(hist' # hist /\ LastCall.f = "xfer") => Eng(rel') = LastCall.dest]_vars

\* a valid request is never refused with a ColumnError because of placement
NoPlacementColumnError ==
    \A c \in (IF final THEN {} ELSE FinalCalls(rel)) :
        LET r == CallResult(c, rel) IN IsErr(r) => r.err # "ColumnError"

(* ---------------- the final call issued on a tree RETURNED BY process() ---------------- *)
\* Processor.process hands back a tree whose transfers (and materializations)
\* hold payloads; users keep building on it.  PBase is the as-coded processor
\* (RA_Proc) run on the tree before the final call, PRes the final call issued
\* on its result.  Outside the classes of the open findings F8/F16 (process()
\* itself fails) and F2:
\*   - the call is accepted exactly when it is accepted on the unprocessed tree
\*     (payloads lock nothing: only materializations and leaves are locked),
\*   - the result is well-formed, has the naive columns and denotes the reference rows,
\*   - a payload survives only on a marker whose whole upstream is unchanged
\*     (a marker rebuilt over a modified upstream must not keep a stale payload).
PBase == ProcessTop(prev, {})
PLast == hist[Len(hist)]
PRes == IF IsErr(PBase) THEN PBase ELSE CallResult(PLast, PBase.t)
PApplies == final /\ PLast.f \in {"un", "join", "pjoinl"} /\ ~KF8Tree(prev) /\ ~KF2
ProcessedBaseSound ==
    PApplies =>
        /\ ~IsErr(PBase)
        /\ ~IsErr(PRes)
        /\ WellFormed(PRes)
        /\ Cols(PRes) = Cols(rel) /\ Eng(PRes) = Eng(rel)
        /\ (ListDet(PRes, Env) /\ ListDet(PRes, Rev) /\ ~LastIsJoin) => Den(PRes, Env) = ref
        /\ (BagDet(PRes, Env) /\ BagDet(PRes, Rev)) => SameBag(Den(PRes, Env), ref) /\ (src = "sql" => SameBag(Den(PRes, Rev), ref))
        /\ \A n \in PaidNodes(PRes, PBase.paid) : n \in Nodes(PBase.t)
        /\ \A n \in Nodes(PRes) : NodeTruthful(n, Env)
\* companion (expected to FAIL with FixF17 overridden to FALSE): finding F17
F17Gone == ProcessedBaseSound

(* ---------------- refused requests (C20 with options) ---------------- *)
IllOps == {Calc("k", Ref("z")), Calc("b", Fn("neg", <<B>>)), Proj({"a", "z"}),
           SelRaw(Cmp("eq", Ref("z"), Lit(0))), Sort(<<Term(Ref("z"), TRUE)>>), Slice(3, 1), Slice(-1, 2)}
SomeOpts == {Opts("none", TRUE, FALSE, FALSE), Opts("sql", TRUE, FALSE, TRUE), Opts("it2", FALSE, TRUE, FALSE),
             Opts("sql", TRUE, TRUE, FALSE), Opts("it1", TRUE, FALSE, FALSE),
             \* a preferred engine alone (no transfer, not required): when backtracking is off or fails the
             \* operation lands in the CURRENT engine, which must then support it
             Opts("sql", TRUE, FALSE, FALSE), Opts("sql", FALSE, FALSE, FALSE), Opts("it2", TRUE, FALSE, FALSE)}
\* operations restricted to one kind of engine, requested towards the other kind
OnlyIterNeg == [x |-> "fn", f |-> "neg", args |-> <<A>>, only |-> "iter"]
OnlySqlNeg == [x |-> "fn", f |-> "neg", args |-> <<A>>, only |-> "sql"]
RestrictedOps == {Calc("k", OnlyIterNeg), Calc("k", OnlySqlNeg), Sort(<<Term(OnlyIterNeg, TRUE)>>),
                  SelRaw([p |-> "cmp", f |-> "lt", l |-> A, r |-> Lit(1), only |-> "iter"]),
                  \* boolean functions declared for one kind of engine whose ARGUMENT only the other kind supports
                  SelRaw([p |-> "cmp", f |-> "lt", l |-> OnlySqlNeg, r |-> Lit(1), only |-> "iter"]),
                  SelRaw([p |-> "cmp", f |-> "lt", l |-> OnlyIterNeg, r |-> Lit(1), only |-> "sql"])}
Rejects(r) ==
    IF final THEN {}
    ELSE {[call |-> c, err |-> CallResult(c, r).err] :
            c \in {x \in {[f |-> "un", op |-> op, opts |-> o] : op \in IllOps \cup RestrictedOps, o \in SomeOpts}
                            \cup FinalCalls(r)
                            \cup {[f |-> "join", fixed |-> "T2", p |-> Cmp("eq", Ref("z"), A), backtrack |-> TRUE, transfer |-> TRUE]}
                        : IsErr(CallResult(x, r))}}

IllRejected ==
    ~final => \A op \in IllOps : \A o \in SomeOpts :
                 IsErr(CallResult([f |-> "un", op |-> op, opts |-> o], rel))

(* ---------------- emission ---------------- *)
Fired == final /\ hist[Len(hist)].f \in {"un", "join", "pjoinl"} /\
         (LET c == hist[Len(hist)] IN c.f \in {"join", "pjoinl"} \/ c.opts.pref # "none")

EmitState ==
    Emit =>
      PrintT(<<"ST", ToJson([
            src |-> src, l1 |-> l1, t2 |-> T2Rows, hist |-> hist, tree |-> rel, rows |-> ref,
            ldet |-> ListPromised, bdet |-> BDet,
            meta |-> [cols |-> Cols(rel), min |-> MinR(rel), max |-> MaxR(rel), eng |-> Eng(rel),
                      trivial |-> Trivial(rel), jid |-> JoinIdentity(rel)],
            mats |-> {n.name : n \in MatNodes(rel)},
            rejects |-> Rejects(rel),
            kf2 |-> KF2Matcher,
            ptree |-> (IF PApplies /\ ~IsErr(PBase) /\ ~IsErr(PRes) THEN Flagged(PRes, PBase.paid) ELSE [k |-> "none"]),
            final |-> final, fired |-> Fired])>>)
=============================================================================
