------------------------------ MODULE PoolHistory ------------------------------
(***************************************************************************)
(* Behaviour spec for C09: any interleaving of factory calls (which only   *)
(* ADD relations to a pool) with compile / execute / process / diagnose /  *)
(* rejected requests on ANY pool member.  In the specification relations   *)
(* are values, so persistence is an action property that holds by          *)
(* construction; the purpose of the spec is to let TLC generate EVERY      *)
(* history (exhaustively to a small depth, by simulation beyond), which    *)
(* the harness replays into the real library, fingerprinting every pool    *)
(* member (repr, str, hash, ==, columns, bounds, leaf payload contents,    *)
(* compiled SQL, executed rows) after every step.                          *)
(*   pool  sequence of [t |-> tree, rows |-> reference rows]               *)
(*   acts  the history                                                     *)
(***************************************************************************)
EXTENDS RA_SqlSem, RA_Proc, Json

CONSTANTS MaxLen, MaxPool, Emit

VARIABLES pool, acts
vars == <<pool, acts>>

A == Ref("a")
B == Ref("b")
CC == Ref("c")
LRows == <<[a |-> 1, b |-> 0], [a |-> 0, b |-> 1], [a |-> 1, b |-> 0], [a |-> 0, b |-> 0]>>
T2Rows == <<[a |-> 0, c |-> 1], [a |-> 1, c |-> 0]>>
LeafL == Leaf("L", "it1", {"a", "b"}, 4, 4)
LeafT == Leaf("T", "sql", {"a", "b"}, 4, 4)
LeafT2 == Leaf("T2", "sql", {"a", "c"}, 0, -1)
TotalAB == <<Term(A, TRUE), Term(B, FALSE)>>

UnOps == {Sort(TotalAB), Sort(<<Term(B, FALSE)>>), Sel(Cmp("eq", A, Lit(1))), Proj({"a"}), Dedup, Slice(0, 2),
          Calc("d", Fn("add", <<A, B>>)), Calc("c", Fn("neg", <<B>>)),
          Sel(In(A, SeqC(<<Lit(1), B>>)))}

Entry(t, rows) == [t |-> t, rows |-> rows]
\* a fourth initial member: the tree Processor.process() returns for L transferred into the
\* SQL engine - its transfer holds a payload (a temporary table), and users keep building on it
ProcessedL == ProcessTop(TransferTo(LeafL, "sql"), {}).t
Init == /\ pool = <<Entry(LeafL, LRows), Entry(PlainSel(LeafT), LRows), Entry(PlainSel(LeafT2), T2Rows), Entry(ProcessedL, LRows)>>
        /\ acts = <<>>

CommonCols(c1, c2) == {c \in c1 \cap c2 : IsKey(c)}

BuildResult(a) ==
    CASE a.a = "un"    -> ApplyUnary(a.op, pool[a.i].t, DefaultOpts)
      [] a.a = "chain" -> ApplyBinary(ChainOp, pool[a.i].t, pool[a.j].t)
      [] a.a = "join"  -> JoinRel(pool[a.i].t, pool[a.j].t, PLit(TRUE), TRUE, FALSE)
      [] a.a = "mat"   -> Materialize(pool[a.i].t, a.name)
      [] a.a = "xfer"  -> TransferTo(pool[a.i].t, a.dest)
BuildRows(a) ==
    CASE a.a = "un"    -> ApplyOp(a.op, pool[a.i].rows)
      [] a.a = "chain" -> pool[a.i].rows \o pool[a.j].rows
      [] a.a = "join"  -> JoinRows(pool[a.i].rows, pool[a.j].rows, CommonCols(Cols(pool[a.i].t), Cols(pool[a.j].t)), PLit(TRUE))
      [] OTHER -> pool[a.i].rows

Idx == DOMAIN pool
BuildActs ==
    {[a |-> "un", i |-> i, op |-> op] : i \in Idx, op \in UnOps}
      \cup {[a |-> "chain", i |-> i, j |-> j] : i \in Idx, j \in Idx}
      \cup {[a |-> "join", i |-> i, j |-> j] : i \in Idx, j \in Idx}
      \cup {[a |-> "mat", i |-> i, name |-> "m1"] : i \in Idx}
      \cup {[a |-> "xfer", i |-> i, dest |-> e] : i \in Idx, e \in {"it1", "it2", "sql"}}

Build == /\ Len(acts) < MaxLen /\ Len(pool) < MaxPool
         /\ \E a \in BuildActs :
               /\ (a.a = "un" => BeginErr(a.op, Cols(pool[a.i].t)) = "none" /\ ~IsNoOp(a.op, Cols(pool[a.i].t)))
               /\ (a.a = "join" => KindOf(Eng(pool[a.i].t)) = "sql" /\ a.i # a.j
                                   /\ (Cols(pool[a.i].t) \cap Cols(pool[a.j].t)) \subseteq {"a"})
               /\ (a.a = "chain" => a.i # a.j \/ KindOf(Eng(pool[a.i].t)) = "iter")
               /\ LET r == BuildResult(a) IN
                  /\ ~IsErr(r)
                  /\ r \notin {pool[k].t : k \in Idx}
                  /\ pool' = Append(pool, Entry(r, BuildRows(a)))
               /\ acts' = Append(acts, a)

\* does the tree need a Processor before it can be evaluated?
RECURSIVE SingleEngine(_)
SingleEngine(t) ==
    CASE t.k = "leaf" -> TRUE
      [] t.k = "un"   -> SingleEngine(t.t)
      [] t.k = "bin"  -> SingleEngine(t.l) /\ SingleEngine(t.r)
      [] t.k = "xfer" -> \/ (Has(t, "p") /\ t.p)          \* a transfer that holds a payload is evaluable as it is
                         \/ KindOf(t.dest) = "iter" /\ KindOf(Eng(t.t)) = "iter" /\ SingleEngine(t.t)
      [] t.k = "mat"  -> KindOf(Eng(t)) = "iter" /\ SingleEngine(t.t)
      [] t.k = "sel"  -> SingleEngine(t.skip)

IllCalls == {[f |-> "un", op |-> Calc("k", Ref("z"))], [f |-> "un", op |-> Proj({"a", "z"})],
             [f |-> "un", op |-> Slice(3, 1)], [f |-> "un", op |-> SelRaw(Cmp("eq", Ref("z"), Lit(0)))]}

Observe == /\ Len(acts) < MaxLen
           /\ \E i \in Idx :
                \/ /\ KindOf(Eng(pool[i].t)) = "sql" /\ SingleEngine(pool[i].t)
                   /\ acts' = Append(acts, [a |-> "compile", i |-> i])
                \/ /\ SingleEngine(pool[i].t)
                   /\ acts' = Append(acts, [a |-> "exec", i |-> i])
                \/ acts' = Append(acts, [a |-> "process", i |-> i])
                \/ acts' = Append(acts, [a |-> "diag", i |-> i])
                \/ \E c \in IllCalls : acts' = Append(acts, [a |-> "reject", i |-> i, call |-> c])
           /\ UNCHANGED pool

Next == Build \/ Observe
Spec == Init /\ [][Next]_vars

\* relations are persistent values: no action changes an existing pool member
Persistent == [][\A k \in DOMAIN pool : pool'[k] = pool[k]]_vars
\* every pool member denotes its reference rows
ContentKept == \A k \in Idx :
    LET e == [L |-> LRows, T |-> LRows, T2 |-> T2Rows] IN
    (BagDet(pool[k].t, e) /\ BagDet(pool[k].t, RevEnv(e))) => SameBag(Den(pool[k].t, e), pool[k].rows)

EmitState ==
    (Emit /\ Len(acts) = MaxLen) =>
      PrintT(<<"ST", ToJson([acts |-> acts,
                             rows |-> [k \in Idx |-> pool[k].rows],
                             det |-> [k \in Idx |-> LET e == [L |-> LRows, T |-> LRows, T2 |-> T2Rows] IN
                                                    BagDet(pool[k].t, e) /\ BagDet(pool[k].t, RevEnv(e))],
                             single |-> [k \in Idx |-> SingleEngine(pool[k].t)],
                             n |-> Len(pool)])>>)
=============================================================================
