----------------------------- MODULE RA_PairLaws -----------------------------
(***************************************************************************)
(* The laws of properties C04 (commutation reports are sound) and C05      *)
(* (merging / eliding preserves semantics), stated once, over the          *)
(* reference semantics ApplyOp.  Used on the model's own rules (OpPairs)   *)
(* and on answers recorded from the real code (TracePairs).                *)
(***************************************************************************)
EXTENDS RA_Engine

\* all row sequences of length <= n over the given set of rows
RECURSIVE SeqsUpTo(_, _)
SeqsUpTo(S, n) == IF n = 0 THEN {<<>>}
                  ELSE LET prev == SeqsUpTo(S, n - 1) IN
                       prev \cup {Append(s, r) : s \in {q \in prev : Len(q) = n - 1}, r \in S}

RowsAB(K) == {[a |-> x, b |-> y] : x \in 0..K, y \in 0..K}
\* one-column targets <<[a|->0], [a|->1], ...>> of every length 0..n (slices are positional)
CountTargets(n) == {[i \in 1..m |-> [a |-> i - 1]] : m \in 0..n}

\* C04 for one (cur, new, commutator k) on targets with columns tc
CommuteLaw(new, cur, k, tc, targets) ==
    IF k.first.o # "none"
    THEN /\ WellFormedOn(k.first, tc)
         /\ k.second.o = "id" \/ WellFormedOn(k.second, OpCols(k.first, tc))
         /\ ~k.done => WellFormedOn(new, OpCols(k.second, OpCols(k.first, tc)))
         /\ \A T \in targets :
              LET s2 == ApplyOp(k.second, ApplyOp(k.first, T))
                  final == IF k.done THEN s2 ELSE ApplyOp(new, s2)
              IN final = ApplyOp(new, ApplyOp(cur, T))
    ELSE /\ k.second = cur
         /\ k.done => \A T \in targets : ApplyOp(new, ApplyOp(cur, T)) = ApplyOp(cur, T)

\* finding F2 (open): Projection.commute moves a projection upstream of a
\* Deduplication (pinned by tests/test_projection.py)
KF_ProjPastDedup(new, cur) == new.o = "proj" /\ cur.o = "dedup"

\* C05 for one pair: `res` is the tree obtained by applying cur and then new to
\* the leaf "L" (columns tc); it must not be an error and must denote the
\* sequential application on every target.
MergeLaw(new, cur, res, targets) ==
    /\ ~IsErr(res)
    /\ \A T \in targets : Den(res, [L |-> T]) = ApplyOp(new, ApplyOp(cur, T))

\* did a rule fire?  (non-triviality statistics)
Merged(res) == ~IsErr(res) /\ ~(res.k = "un" /\ res.t.k = "un")
=============================================================================
