----------------------------- MODULE RA_PairLaws -----------------------------
(***************************************************************************)
(* The laws of properties C04 (commutation reports are sound) and C05      *)
(* (merging / eliding preserves semantics), stated once, over the          *)
(* reference semantics ApplyOp.  Used on the model's own rules (OpPairs)   *)
(* and on answers recorded from the real code (TracePairs).                *)
(***************************************************************************)
EXTENDS RA_Engine

\* all row sequences of length <= n over the given set of rows
RECURSIVE SeqsUpTo(_, _)
SeqsUpTo(S, n) == IF n = 0 THEN {<<>>}
                  ELSE LET prev == SeqsUpTo(S, n - 1) IN
                       prev \cup {Append(s, r) : s \in {q \in prev : Len(q) = n - 1}, r \in S}

RowsAB(K) == {[a |-> x, b |-> y] : x \in 0..K, y \in 0..K}
\* one-column targets <<[a|->0], [a|->1], ...>> of every length 0..n (slices are positional)
CountTargets(n) == {[i \in 1..m |-> [a |-> i - 1]] : m \in 0..n}

\* Partial joins as operations (mode "joins"): the fixed operand is one of the leaves F1..F4
\* with the constant contents FEnv; a resolved partial join [o |-> "pjoin", fixed, p, common, res, lhs]
\* acts on rows like a unary operation.
FEnv == [F1 |-> <<[a |-> 0, c |-> 1], [a |-> 1, c |-> 0], [a |-> 1, c |-> 1]>>,
         F2 |-> <<[b |-> 0, c |-> 0], [b |-> 1, c |-> 2]>>,
         F3 |-> <<[a |-> 1, b |-> 1], [a |-> 0, b |-> 0], [a |-> 1, b |-> 1]>>,
         F4 |-> <<[c |-> 5], [c |-> 6]>>]
FLeaf(id, cols) == Leaf(id, "it1", cols, 0, -1)
ApplyX(op, rows) ==
    IF op.o = "pjoin"
    THEN LET fr == Den(op.fixed, FEnv) IN
         IF op.lhs THEN JoinRows(fr, rows, op.common, op.p) ELSE JoinRows(rows, fr, op.common, op.p)
    ELSE ApplyOp(op, rows)
OpColsX(op, cols) == IF op.o = "pjoin" THEN cols \cup Cols(op.fixed) ELSE OpCols(op, cols)
WellFormedOnX(op, tc) ==
    IF op.o = "pjoin"
    THEN /\ op.res /\ op.common \subseteq tc /\ op.common \subseteq Cols(op.fixed)
         /\ ReqP(op.p) \subseteq tc \cup Cols(op.fixed)
    ELSE WellFormedOn(op, tc)

\* A partial join whose common columns are not resolved yet (Join() as constructed, min_columns #
\* max_columns) resolves them against the relation it is applied to: the shared key columns.
ResolveOn(op, cols) ==
    IF op.o = "pjoin" /\ ~op.res
    THEN [op EXCEPT !.common = {c \in cols \cap Cols(op.fixed) : IsKey(c)}, !.res = TRUE]
    ELSE op

\* C04 for one (cur, new, commutator k) on targets with columns tc
CommuteLaw(new, cur, k, tc, targets) ==
    LET newHere == ResolveOn(new, OpColsX(cur, tc))        \* the new operation where it was requested
    IN
    IF k.first.o # "none"
    THEN LET f == ResolveOn(k.first, tc)
             c1 == OpColsX(f, tc)
             s == ResolveOn(k.second, c1)
             c2 == OpColsX(s, c1)
             again == ResolveOn(new, c2)
         IN
         /\ WellFormedOnX(f, tc)
         /\ s.o = "id" \/ WellFormedOnX(s, c1)
         /\ ~k.done => WellFormedOnX(again, c2)
         /\ \A T \in targets :
              LET s2 == ApplyX(s, ApplyX(f, T))
                  final == IF k.done THEN s2 ELSE ApplyX(again, s2)
              IN \* a join has no row order of its own (only the SQL engine evaluates joins): multisets
                 IF new.o = "pjoin" THEN SameBag(final, ApplyX(newHere, ApplyX(cur, T)))
                 ELSE final = ApplyX(newHere, ApplyX(cur, T))
    ELSE /\ k.second = cur
         /\ k.done => \A T \in targets : ApplyX(newHere, ApplyX(cur, T)) = ApplyX(cur, T)

\* finding F2 (open): Projection.commute moves a projection upstream of a
\* Deduplication (pinned by tests/test_projection.py)
KF_ProjPastDedup(new, cur) == new.o = "proj" /\ cur.o = "dedup"

\* C05 for one pair: `res` is the tree obtained by applying cur and then new to
\* the leaf "L" (columns tc); it must not be an error and must denote the
\* sequential application on every target.
MergeLaw(new, cur, res, targets) ==
    /\ ~IsErr(res)
    /\ \A T \in targets : Den(res, [L |-> T]) = ApplyOp(new, ApplyOp(cur, T))

\* did a rule fire?  (non-triviality statistics)
Merged(res) == ~IsErr(res) /\ ~(res.k = "un" /\ res.t.k = "un")
=============================================================================
