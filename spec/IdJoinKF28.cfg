SPECIFICATION Spec
CONSTANTS
  MaxXfers = 2
  Emit = FALSE
  FixF28 <- FixOff
INVARIANT WF
INVARIANT Content
CHECK_DEADLOCK FALSE
