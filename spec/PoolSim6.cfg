SPECIFICATION Spec
CONSTANTS
  MaxLen = 6
  MaxPool = 8
  Emit = TRUE
INVARIANT ContentKept
INVARIANT EmitState
PROPERTY Persistent
CHECK_DEADLOCK FALSE
