SPECIFICATION Spec
CONSTANTS
  Threads <- T2
  EngineOf <- TwoEngines2
  Requests = 1
  UseUuid = TRUE
  Emit = TRUE
INVARIANT Unique
INVARIANT Prefixed
INVARIANT CounterBounded
INVARIANT EmitState
CHECK_DEADLOCK FALSE
