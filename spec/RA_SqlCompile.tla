---------------------------- MODULE RA_SqlCompile ----------------------------
(***************************************************************************)
(* The SQL engine's compilation of a conformed tree, as coded              *)
(* (sql/_engine.py: to_payload, _select_to_executable), into an ABSTRACT   *)
(* SQL statement, and the meaning of such a statement on a database with   *)
(* a given physical order of its tables (RunSql).                          *)
(*                                                                         *)
(*  stmt := [q|->"select", cols : name -> sqlexpr, from, where : seq,      *)
(*           distinct, order : seq of [e, asc], off, lim (-1 = none)]      *)
(*        | [q|->"union", all, l, r, order, off, lim]                      *)
(*        | [err |-> "KeyError" | "EngineError" | "NotImplementedError"    *)
(*                   | "InvalidSql"]                                        *)
(*  from := [f|->"table", id, q] | [f|->"join", l, r, on : seq]            *)
(*        | [f|->"subq", s, q]                                             *)
(*  A column of a FROM item is referred to as [s|->"qcol", q, c]: q is the *)
(*  item's position in the statement (a path string), so that the same     *)
(*  table may occur several times; a column of a UNION's output, in its    *)
(*  ORDER BY, as [s|->"out", c].                                           *)
(*  payload := [from, where : seq of sqlpred, avail : tag -> sqlexpr]      *)
(*                                                                         *)
(* This is where the columns_available plumbing lives: the merge           *)
(* {**lhs, **rhs} of a join (rhs wins), the shadowing by a Calculation,    *)
(* the lookups that raise KeyError when a sort or select-list column is    *)
(* not available.  UNION operands are paired BY NAME (the code after the   *)
(* fix of finding F13 reorders the second operand's select list).          *)
(***************************************************************************)
EXTENDS RA_SqlSem

QCol(q, c) == [s |-> "qcol", q |-> q, c |-> c]
CErr(cls) == [err |-> cls]

(* substitute the columns of an abstract SQL expression / predicate by the  *)
(* logical columns available ([s|->"col",c] -> avail[c]); "missing" marks a *)
(* failed lookup                                                            *)
Missing == [s |-> "missing"]
RECURSIVE SubE(_, _)
SubE(e, avail) ==
    CASE e.s = "col" -> IF e.c \in DOMAIN avail THEN avail[e.c] ELSE Missing
      [] e.s = "lit" -> e
      [] e.s = "fn"  -> [e EXCEPT !.args = [i \in DOMAIN e.args |-> SubE(e.args[i], avail)]]
      [] e.s = "mod" -> [e EXCEPT !.l = SubE(e.l, avail), !.r = SubE(e.r, avail)]
      [] OTHER -> e
RECURSIVE SubP(_, _)
SubP(p, avail) ==
    CASE p.s = "blit" -> p
      [] p.s = "col"  -> IF p.c \in DOMAIN avail THEN avail[p.c] ELSE Missing
      [] p.s = "cmp"  -> [p EXCEPT !.l = SubE(p.l, avail), !.r = SubE(p.r, avail)]
      [] p.s = "not"  -> [p EXCEPT !.q = SubP(p.q, avail)]
      [] p.s \in {"and", "or"} -> [p EXCEPT !.qs = [i \in DOMAIN p.qs |-> SubP(p.qs[i], avail)]]
      [] p.s = "between" -> [p EXCEPT !.e = SubE(p.e, avail), !.lo = SubE(p.lo, avail), !.hi = SubE(p.hi, avail)]
      [] p.s = "in"   -> [p EXCEPT !.e = SubE(p.e, avail), !.items = [i \in DOMAIN p.items |-> SubE(p.items[i], avail)]]

RECURSIVE HasMissingE(_)
HasMissingE(e) ==
    CASE e.s = "missing" -> TRUE
      [] e.s = "fn"  -> \E i \in DOMAIN e.args : HasMissingE(e.args[i])
      [] e.s = "mod" -> HasMissingE(e.l) \/ HasMissingE(e.r)
      [] OTHER -> FALSE
RECURSIVE HasMissingP(_)
HasMissingP(p) ==
    CASE p.s = "missing" -> TRUE
      [] p.s = "cmp" -> HasMissingE(p.l) \/ HasMissingE(p.r)
      [] p.s = "not" -> HasMissingP(p.q)
      [] p.s \in {"and", "or"} -> \E i \in DOMAIN p.qs : HasMissingP(p.qs[i])
      [] p.s = "between" -> HasMissingE(p.e) \/ HasMissingE(p.lo) \/ HasMissingE(p.hi)
      [] p.s = "in" -> HasMissingE(p.e) \/ \E i \in DOMAIN p.items : HasMissingE(p.items[i])
      [] OTHER -> FALSE

RECURSIVE SetAsSeq(_)
SetAsSeq(S) == IF S = {} THEN <<>> ELSE LET x == CHOOSE y \in S : TRUE IN <<x>> \o SetAsSeq(S \ {x})

Merge(f, g) == [x \in (DOMAIN f) \cup (DOMAIN g) |-> IF x \in DOMAIN g THEN g[x] ELSE f[x]]   \* {**f, **g}

RECURSIVE ToPayload(_, _)
RECURSIVE Compile(_, _)

\* Engine.to_payload(relation); q = position path of the FROM item being built
ToPayload(t, q) ==
    CASE t.k = "leaf" ->
            \* an engine-made doomed leaf (get_doomed_payload) carries WHERE false
            [from |-> [f |-> "table", id |-> t.id, q |-> q],
             where |-> IF Has(t, "msgs") /\ t.max = 0 THEN << [s |-> "blit", v |-> FALSE] >> ELSE <<>>,
             avail |-> [c \in t.cols |-> QCol(q, c)]]
      [] t.k = "un" ->
            LET p == ToPayload(t.t, q) IN
            IF IsErr(p) THEN p
            ELSE IF t.op.o = "calc"
                 THEN LET e == SubE(SqlE(t.op.e), p.avail) IN
                      IF HasMissingE(e) THEN CErr("KeyError")
                      ELSE [p EXCEPT !.avail = Merge(p.avail, [x \in {t.op.tag} |-> e])]
            ELSE IF t.op.o = "sel"
                 THEN LET ts == SqlFlat(t.op.p)
                          sub == [i \in DOMAIN ts |-> SubP(ts[i], p.avail)]
                      IN IF \E i \in DOMAIN sub : HasMissingP(sub[i]) THEN CErr("KeyError")
                         ELSE [p EXCEPT !.where = p.where \o sub]
            ELSE CErr("NotImplementedError")
      [] t.k = "bin" ->
            IF t.op.o # "join" THEN CErr("NotImplementedError")
            ELSE LET l == ToPayload(t.l, q \o "l")
                     r == ToPayload(t.r, q \o "r")
                 IN IF IsErr(l) THEN l ELSE IF IsErr(r) THEN r
                    ELSE LET commonSeq == SetAsSeq(t.op.common)
                             eqs == [i \in DOMAIN commonSeq |->
                                       [s |-> "cmp", f |-> "eq", l |-> l.avail[commonSeq[i]], r |-> r.avail[commonSeq[i]]]]
                             avail == Merge(l.avail, r.avail)
                             ps == IF AsTrivial(t.op.p) = "T" THEN <<>>
                                   ELSE LET ts == SqlFlat(t.op.p) IN [i \in DOMAIN ts |-> SubP(ts[i], avail)]
                         IN IF \E i \in DOMAIN ps : HasMissingP(ps[i]) THEN CErr("KeyError")
                            ELSE [from |-> [f |-> "join", l |-> l.from, r |-> r.from, on |-> eqs \o ps],
                                  where |-> l.where \o r.where, avail |-> avail]
      [] t.k = "sel" ->
            LET s == Compile(t, q \o "s") IN
            IF IsErr(s) THEN s
            ELSE [from |-> [f |-> "subq", s |-> s, q |-> q], where |-> <<>>,
                  avail |-> [c \in Cols(t) |-> QCol(q, c)]]
      [] t.k \in {"mat", "xfer"} -> CErr("EngineError")         \* no payload: needs a Processor first

\* Engine._select_to_executable(select)
Compile(S, q) ==
    LET lim == IF S.b = -1 THEN -1 ELSE S.b - S.a IN
    IF IsCompound(S)
    THEN LET l == Compile(S.skip.l, q \o "l")
             r == Compile(S.skip.r, q \o "r")
         IN IF IsErr(l) THEN l ELSE IF IsErr(r) THEN r
            ELSE IF \E i \in DOMAIN S.sort : ~(ReqE(S.sort[i].e) \subseteq Cols(S.skip)) THEN CErr("KeyError")
            \* the ORDER BY of a compound SELECT may only name its result columns (SQL standard;
            \* SQLite: "ORDER BY term does not match any column in the result set")
            ELSE IF \E i \in DOMAIN S.sort : S.sort[i].e.x # "ref" THEN CErr("InvalidSql")
            ELSE [q |-> "union", all |-> ~S.dedup, l |-> l, r |-> r,
                  order |-> [i \in DOMAIN S.sort |->
                               [e |-> SubE(SqlE(S.sort[i].e), [c \in Cols(S.skip) |-> [s |-> "out", c |-> c]]),
                                asc |-> S.sort[i].asc]],
                  off |-> S.a, lim |-> lim]
    ELSE LET p == ToPayload(S.skip, q) IN
         IF IsErr(p) THEN p
         ELSE IF ~(Cols(S) \subseteq DOMAIN p.avail) THEN CErr("KeyError")
         ELSE LET ord == [i \in DOMAIN S.sort |-> [e |-> SubE(SqlE(S.sort[i].e), p.avail), asc |-> S.sort[i].asc]] IN
              IF \E i \in DOMAIN ord : HasMissingE(ord[i].e) THEN CErr("KeyError")
              \* SELECT DISTINCT can only be ordered by expressions over its select list (stricter dialects
              \* reject anything else; SQLite orders by the value of an arbitrary surviving row)
              ELSE IF S.dedup /\ \E i \in DOMAIN S.sort : ~(ReqE(S.sort[i].e) \subseteq Cols(S)) THEN CErr("InvalidSql")
              ELSE [q |-> "select", cols |-> [c \in Cols(S) |-> p.avail[c]], from |-> p.from, where |-> p.where,
                    distinct |-> S.dedup, order |-> ord, off |-> S.a, lim |-> lim]

CompileTop(t) == IF t.k = "sel" THEN Compile(t, "") ELSE CErr("NotImplementedError")

(***************************************************************************)
(* Meaning of a statement.  FROM items evaluate to sequences of bindings   *)
(* (functions from <<q, c>> to values); tables are scanned in the order of *)
(* db (reversed when rev).                                                 *)
(***************************************************************************)
RECURSIVE EvalQE(_, _)
EvalQE(e, b) ==
    CASE e.s = "qcol" -> b[<<e.q, e.c>>]
      [] e.s = "out"  -> b[e.c]
      [] e.s = "lit"  -> e.v
      [] e.s = "fn"   -> ApplyFn(e.f, [i \in DOMAIN e.args |-> EvalQE(e.args[i], b)])
      [] e.s = "mod"  -> TruncMod(EvalQE(e.l, b), EvalQE(e.r, b))
RECURSIVE EvalQP(_, _)
EvalQP(p, b) ==
    CASE p.s = "blit" -> p.v
      [] p.s = "qcol" -> b[<<p.q, p.c>>] # 0
      [] p.s = "cmp"  -> ApplyCmp(p.f, EvalQE(p.l, b), EvalQE(p.r, b))
      [] p.s = "not"  -> ~EvalQP(p.q, b)
      [] p.s = "and"  -> \A i \in DOMAIN p.qs : EvalQP(p.qs[i], b)
      [] p.s = "or"   -> \E i \in DOMAIN p.qs : EvalQP(p.qs[i], b)
      [] p.s = "between" -> LET v == EvalQE(p.e, b) IN v >= EvalQE(p.lo, b) /\ v <= EvalQE(p.hi, b)
      [] p.s = "in"   -> \E i \in DOMAIN p.items : EvalQE(p.items[i], b) = EvalQE(p.e, b)

BeforeQ(b1, b2, order) ==
    \E i \in DOMAIN order :
        /\ \A j \in 1..(i - 1) : EvalQE(order[j].e, b1) = EvalQE(order[j].e, b2)
        /\ IF order[i].asc THEN EvalQE(order[i].e, b1) < EvalQE(order[i].e, b2)
                           ELSE EvalQE(order[i].e, b1) > EvalQE(order[i].e, b2)
RECURSIVE InsertQ(_, _, _)
InsertQ(sorted, b, order) ==
    IF sorted = <<>> THEN <<b>>
    ELSE IF BeforeQ(b, Head(sorted), order) THEN <<b>> \o sorted
         ELSE <<Head(sorted)>> \o InsertQ(Tail(sorted), b, order)
RECURSIVE SortQ(_, _)
SortQ(bs, order) == IF bs = <<>> \/ order = <<>> THEN bs
                    ELSE InsertQ(SortQ(SubSeq(bs, 1, Len(bs) - 1), order), bs[Len(bs)], order)

Window(rows, off, lim) ==
    LET hi == IF lim = -1 THEN Len(rows) ELSE Min2(off + lim, Len(rows)) IN
    IF off >= hi THEN <<>> ELSE SubSeq(rows, off + 1, hi)

RECURSIVE RunSql(_, _, _)
RECURSIVE EvalFrom(_, _, _)
EvalFrom(f, db, rev) ==
    CASE f.f = "table" ->
            LET rows == IF rev THEN [i \in DOMAIN db[f.id] |-> db[f.id][Len(db[f.id]) + 1 - i]] ELSE db[f.id] IN
            [i \in DOMAIN rows |-> [k \in {<<f.q, c>> : c \in DOMAIN rows[i]} |-> rows[i][k[2]]]]
      [] f.f = "subq" ->
            LET rows == RunSql(f.s, db, rev) IN
            [i \in DOMAIN rows |-> [k \in {<<f.q, c>> : c \in DOMAIN rows[i]} |-> rows[i][k[2]]]]
      [] f.f = "join" ->
            LET ls == EvalFrom(f.l, db, rev)
                rs == EvalFrom(f.r, db, rev)
                pairs == FlatSeq([i \in DOMAIN ls |-> [j \in DOMAIN rs |-> MergeRows(ls[i], rs[j])]])
            IN SelectSeq(pairs, LAMBDA b : \A k \in DOMAIN f.on : EvalQP(f.on[k], b))

RunSql(s, db, rev) ==
    IF s.q = "select"
    THEN LET bs0 == EvalFrom(s.from, db, rev)
             bs1 == SelectSeq(bs0, LAMBDA b : \A k \in DOMAIN s.where : EvalQP(s.where[k], b))
             bs2 == SortQ(bs1, s.order)
             out == [i \in DOMAIN bs2 |-> [c \in DOMAIN s.cols |-> EvalQE(s.cols[c], bs2[i])]]
             ded == IF s.distinct THEN DedupSeq(out) ELSE out
         IN Window(ded, s.off, s.lim)
    ELSE LET l == RunSql(s.l, db, rev)
             r == RunSql(s.r, db, rev)
             u == IF s.all THEN l \o r ELSE DedupSeq(l \o r)
             srt == SortQ(u, s.order)
         IN Window(srt, s.off, s.lim)

(***************************************************************************)
(* A coarse, alias-free SHAPE of a statement: what the harness can also    *)
(* read off the real SQLAlchemy object (drift detection for the compiler). *)
(***************************************************************************)
RECURSIVE Shape(_)
RECURSIVE FromShape(_)
FromShape(f) ==
    CASE f.f = "table" -> [f |-> "table", id |-> f.id]
      [] f.f = "subq"  -> [f |-> "subq", s |-> Shape(f.s)]
      [] f.f = "join"  -> [f |-> "join", l |-> FromShape(f.l), r |-> FromShape(f.r), on |-> Len(f.on) > 0]
Shape(s) ==
    IF s.q = "select"
    THEN [q |-> "select", cols |-> DOMAIN s.cols, from |-> FromShape(s.from), where |-> Len(s.where) > 0,
          distinct |-> s.distinct, order |-> [i \in DOMAIN s.order |-> s.order[i].asc], off |-> s.off, lim |-> s.lim]
    ELSE [q |-> "union", all |-> s.all, l |-> Shape(s.l), r |-> Shape(s.r),
          order |-> [i \in DOMAIN s.order |-> s.order[i].asc], off |-> s.off, lim |-> s.lim]
=============================================================================
