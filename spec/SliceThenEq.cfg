SPECIFICATION Spec
CONSTANT Bound = 7
INVARIANT Inv
