SPECIFICATION Spec
CONSTANTS
  Contents <- C1
  Sources <- Both
  BaseDepth = 1
  FinalOps = "few"
  Starts <- NoStart
  Emit = FALSE
  FixF24 <- FixOff
INVARIANT WF
CHECK_DEADLOCK FALSE
