SPECIFICATION Spec
CONSTANTS
  Contents <- C2
  Sources <- Both
  BaseDepth = 2
  FinalOps = "all"
  Starts <- NoStart
  Emit = TRUE
INVARIANT ContentKept
INVARIANT ColumnsKept
INVARIANT WF
INVARIANT MetaTruthful
INVARIANT NoPlacementColumnError
INVARIANT IllRejected
INVARIANT ProcessedBaseSound
INVARIANT EmitState
PROPERTY LockedKept
PROPERTY MatsKept
PROPERTY OptionsHonoured
PROPERTY NoOpIdentity
PROPERTY TransferLands
CHECK_DEADLOCK FALSE
