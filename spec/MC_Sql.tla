------------------------------- MODULE MC_Sql -------------------------------
EXTENDS SqlProgram
R(x, y) == [a |-> x, b |-> y]
C12 == { <<>>, <<R(0,0)>>, <<R(1,0)>>, <<R(0,0), R(0,0)>>, <<R(0,1), R(1,0)>>, <<R(1,0), R(0,1)>>,
         <<R(1,1), R(0,0), R(1,1)>>, <<R(0,0), R(0,1), R(1,0)>>, <<R(1,0), R(0,1), R(0,0)>>,
         <<R(0,1), R(0,1), R(0,0)>>, <<R(1,1), R(1,0), R(0,1)>>, <<R(1,0), R(1,1), R(0,0), R(0,1)>> }
C5 == { <<>>, <<R(1,0)>>, <<R(0,1), R(0,1), R(0,0)>>, <<R(1,2), R(2,1), R(1,0)>>, <<R(1,0), R(1,1), R(0,0), R(0,1)>> }
\* the second content has three distinct values of b and a repeated a (an ORDER BY b can tell rows apart that
\* a projection onto a merges - finding F23 needed exactly that)
C3 == { <<R(0,1), R(0,1), R(0,0)>>, <<R(1,2), R(2,1), R(1,0)>>, <<R(1,0), R(1,1), R(0,0), R(0,1)>> }
C1 == { <<R(1,0), R(1,1), R(0,0), R(0,1)>> }
StartOn == TRUE
FixOff == FALSE
BM2 == {"exact", "unb"}
BM1 == {"exact"}
BM4 == {"exact", "loose", "zero", "unb"}
=============================================================================
