SPECIFICATION Spec
CONSTANTS
  Contents <- Small6
  BoundModes <- BM2
  Schema = "AB"
  MaxDepth = 6
  Rich = TRUE
  EmitMin = 6
  Emit = TRUE
INVARIANT ExecMatches
INVARIANT DenMatches
INVARIANT MetaTruthful
INVARIANT WF
INVARIANT DiagSound
INVARIANT LazyPromise
INVARIANT RejectsAll
INVARIANT EmitState
PROPERTY NoOpIdentity
CHECK_DEADLOCK FALSE
