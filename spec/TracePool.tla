------------------------------- MODULE TracePool -------------------------------
(***************************************************************************)
(* Binding B for RANDOM POOL PROGRAMS: long seeded programs in which every *)
(* step builds a new relation from ANY earlier one(s) through the public   *)
(* factories - unary operations (optionally with preferred-engine options),*)
(* chain, join (optionally with explicit max_columns), transfer among a    *)
(* SQL engine and two iteration engines, materialization, and "proc": the  *)
(* tree Processor.process() returned for an earlier member, which later    *)
(* steps keep building on.  Several members share leaves and sub-trees.    *)
(*                                                                         *)
(* The harness records                                                     *)
(*   env    contents of the leaves                                         *)
(*   steps  the program:  [k |-> "leaf", name, cols]                       *)
(*                        [k |-> "un", i, op] | [k |-> "chain", i, j]      *)
(*                        [k |-> "join", i, j, p, hasmx, mx]               *)
(*                        [k |-> "xfer" | "mat" | "proc", i]               *)
(*   obs    for some members: the rows a real Processor + the real engines *)
(*          returned (both SQLite scan orders) and the projected REAL tree *)
(* TLC computes the reference rows of every member from the recorded STEPS *)
(* (the naive semantics: no engine, no backtracking, no simplification)    *)
(* and judges every observation:                                           *)
(*   wf    the real tree is well-formed                                    *)
(*   cols  tree columns and row keys = columns of the naive application    *)
(*   bag   whenever TLC's determinacy analysis of the REAL tree says the   *)
(*         multiset is determined: both answers = reference as multisets   *)
(*   list  whenever the list is determined: both answers = reference       *)
(***************************************************************************)
EXTENDS RA_FromJson, RA_SqlSem, Json, IOUtils

Trace == ndJsonDeserialize(IOEnv.TRACE_FILE)
VARIABLE l

RECURSIVE RefCols(_, _)
RefCols(ev, m) ==
    LET s == ev.steps[m] IN
    CASE s.k = "leaf"  -> SeqSet(s.cols)
      [] s.k = "un"    -> OpCols(FromJOp(s.op), RefCols(ev, s.i))
      [] s.k = "join"  -> RefCols(ev, s.i) \cup RefCols(ev, s.j)
      [] OTHER         -> RefCols(ev, s.i)         \* chain, xfer, mat, proc

JoinCommon(ev, s) ==
    LET keys == {c \in RefCols(ev, s.i) \cap RefCols(ev, s.j) : IsKey(c)} IN
    IF s.hasmx THEN keys \cap SeqSet(s.mx) ELSE keys

RECURSIVE RefRows(_, _)
RefRows(ev, m) ==
    LET s == ev.steps[m] IN
    CASE s.k = "leaf"  -> ev.env[s.name]
      [] s.k = "un"    -> ApplyOp(FromJOp(s.op), RefRows(ev, s.i))
      [] s.k = "chain" -> RefRows(ev, s.i) \o RefRows(ev, s.j)
      [] s.k = "join"  -> JoinRows(RefRows(ev, s.i), RefRows(ev, s.j), JoinCommon(ev, s), s.p)
      [] OTHER         -> RefRows(ev, s.i)         \* xfer, mat, proc

Verdict(ev, o) ==
    LET t == FromJTree(o.tree)
        env == ev.env
        rev == RevEnvFor(t, env)
        wf == ~UnresJ(o.tree) /\ WellFormed(t)
        bdet == wf /\ BagDet(t, env) /\ BagDet(t, rev)
        ldet == wf /\ ListDet(t, env) /\ ListDet(t, rev)
        ref == RefRows(ev, o.m)
        cols == RefCols(ev, o.m)
    IN [ wf   |-> wf,
         cols |-> /\ wf => Cols(t) = cols
                  /\ \A i \in DOMAIN o.rowsf : DOMAIN o.rowsf[i] = cols
                  /\ \A i \in DOMAIN o.rowsr : DOMAIN o.rowsr[i] = cols,
         bag  |-> bdet => SameBag(o.rowsf, ref) /\ SameBag(o.rowsr, ref),
         list |-> ldet => o.rowsf = ref /\ o.rowsr = ref,
         det  |-> bdet,
         ldet |-> ldet ]

Init == l = 1
Next == /\ l <= Len(Trace)
        /\ LET ev == Trace[l] IN
           \A k \in DOMAIN ev.obs :
              LET v == Verdict(ev, ev.obs[k]) IN
              /\ IF v.wf /\ v.cols /\ v.bag /\ v.list THEN TRUE
                 ELSE PrintT(<<"TV", ToJson([id |-> ev.id, obs |-> k, m |-> ev.obs[k].m, v |-> v])>>)
              /\ IF v.det THEN PrintT(<<"TD", ev.id, k>>) ELSE TRUE
        /\ l' = l + 1
        /\ (l' = Len(Trace) + 1 => PrintT(<<"TVDONE", Len(Trace)>>))
Spec == Init /\ [][Next]_l
=============================================================================
