SPECIFICATION Spec
CONSTANTS
  Mode = "custom"
  SortFix = TRUE
  Clamp = TRUE
  ExcludeKF = TRUE
  Emit = FALSE
  FixF25 <- FixOff
INVARIANT CommuteSound
CHECK_DEADLOCK FALSE
