SPECIFICATION Spec
CONSTANTS
  Mode = "general"
  SortFix = TRUE
  Clamp = TRUE
  ExcludeKF = TRUE
  Emit = FALSE
  FixF21 <- FixOff
INVARIANT CommuteSound
CHECK_DEADLOCK FALSE
