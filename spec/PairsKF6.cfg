SPECIFICATION Spec
CONSTANTS
  Mode = "slices"
  SortFix = TRUE
  Clamp = FALSE
  ExcludeKF = TRUE
  Emit = FALSE
INVARIANT MergeSound
CHECK_DEADLOCK FALSE
