SPECIFICATION Spec
CONSTANTS
  MaxLen = 2
  MaxPool = 6
  Emit = TRUE
INVARIANT ContentKept
INVARIANT EmitState
PROPERTY Persistent
CHECK_DEADLOCK FALSE
