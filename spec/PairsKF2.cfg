SPECIFICATION Spec
CONSTANTS
  Mode = "general"
  SortFix = TRUE
  Clamp = TRUE
  ExcludeKF = TRUE
  Emit = FALSE
INVARIANT KF2StillViolates
CHECK_DEADLOCK FALSE
