----------------------------- MODULE RA_IterExec -----------------------------
(***************************************************************************)
(* Execution model of iteration.Engine.execute (DESIGN.md appendix A.6),   *)
(* as coded:                                                               *)
(*   Exec(t, env)     the rows the engine returns, computed the way the    *)
(*                    code computes them (short-cuts on max_rows = 0 and   *)
(*                    join identity; Deduplication through a dict keyed on *)
(*                    the KEY columns; Sort as one stable sort per maximal *)
(*                    run of equal direction, last run first)              *)
(*   Cost(t)          laziness model (C18): how many iterations of each    *)
(*                    leaf payload are started by execute() itself and by  *)
(*                    each full iteration of the returned iterable, and    *)
(*                    the kind of iterable returned                        *)
(* Leaves hold plain (non-materialised) RowIterables unless stated.        *)
(***************************************************************************)
EXTENDS RA_Tree

\* dict {key(row): row for row in rows}: slot of the first occurrence of a key,
\* value of the last row with that key
DedupKeySeq(rows, keys) ==
    LET key(i) == Restrict(rows[i], keys)
        firsts == {i \in DOMAIN rows : \A j \in 1..(i - 1) : key(j) # key(i)}
        lastOf(i) == CHOOSE j \in DOMAIN rows : key(j) = key(i) /\ \A m \in (j + 1)..Len(rows) : key(m) # key(i)
        idx == SelectSeq([i \in 1..Len(rows) |-> i], LAMBDA i : i \in firsts)
    IN [n \in DOMAIN idx |-> rows[lastOf(idx[n])]]

\* maximal runs of equal direction: sequence of term sequences
RECURSIVE Runs(_)
Runs(terms) ==
    IF terms = <<>> THEN <<>>
    ELSE LET rest == Runs(Tail(terms)) IN
         IF rest # <<>> /\ Head(rest)[1].asc = Head(terms).asc
         THEN <<(<<Head(terms)>> \o Head(rest))>> \o Tail(rest)
         ELSE <<(<<Head(terms)>>)>> \o rest

RECURSIVE SortByRuns(_, _)
SortByRuns(rows, runs) ==       \* last run first
    IF runs = <<>> THEN rows
    ELSE SortByRuns(SortRows(rows, runs[Len(runs)]), SubSeq(runs, 1, Len(runs) - 1))

ExecSort(rows, terms) == SortByRuns(rows, Runs(terms))

RECURSIVE Exec(_, _)
Exec(t, env) ==
    IF MaxR(t) = 0 THEN <<>>
    ELSE IF JoinIdentity(t) THEN << <<>> >>
    ELSE CASE t.k = "leaf" -> env[t.id]
           [] t.k = "un" ->
                LET rows == Exec(t.t, env) IN
                (CASE t.op.o = "dedup" -> DedupKeySeq(rows, {c \in Cols(t) : IsKey(c)})
                   [] t.op.o = "sort"  -> ExecSort(rows, t.op.terms)
                   [] OTHER -> ApplyOp(t.op, rows))
           [] t.k = "bin" -> Exec(t.l, env) \o Exec(t.r, env)      \* chain (joins are refused)
           [] t.k \in {"mat", "xfer"} -> Exec(t.t, env)

(***************************************************************************)
(* Laziness.  A cost is [ex |-> bag, it |-> bag, kind |-> "lazy"|"seq"|"map"] *)
(* where a bag maps leaf ids to the number of payload iterations started:  *)
(* ex = during execute(), it = during each full iteration of the result.   *)
(***************************************************************************)
\* TRUE: the code after the fix of finding F29 (a companion configuration overrides it)
FixF29 == TRUE
LeafIds(t) == {n.id : n \in {m \in Nodes(t) : m.k = "leaf"}}
ZeroBag(ids) == [i \in ids |-> 0]
AddBag(x, y) == [i \in DOMAIN x |-> x[i] + y[i]]

\* lk: the kind of the leaves' payloads - "lazy" (a plain RowIterable) or "cmat" (a
\* MaterializedRowIterable that is not a RowSequence: materialized() returns it as it is,
\* sliced() is the lazy base-class one, conversions to a sequence / mapping iterate it)
RECURSIVE CostG(_, _, _)
CostG(t, ids, lk) ==
    IF MaxR(t) = 0 \/ JoinIdentity(t) THEN [ex |-> ZeroBag(ids), it |-> ZeroBag(ids), kind |-> "seq"]
    ELSE CASE t.k = "leaf" ->
                [ex |-> ZeroBag(ids), it |-> [i \in ids |-> IF i = t.id THEN 1 ELSE 0], kind |-> lk]
           [] t.k = "un" ->
                LET c == CostG(t.t, ids, lk) IN
                (CASE t.op.o \in {"calc", "proj", "sel"} -> [c EXCEPT !.kind = "lazy"]
                  [] t.op.o = "slice" ->
                        IF c.kind = "seq" THEN [ex |-> c.ex, it |-> ZeroBag(ids), kind |-> "seq"]
                        ELSE [c EXCEPT !.kind = "lazy"]
                  [] t.op.o = "dedup" ->
                        \* RowMapping.to_mapping returns self for the same unique key
                        IF c.kind = "map" /\ t.t.k = "un" /\ t.t.op.o = "dedup" THEN c
                        ELSE [ex |-> AddBag(c.ex, c.it), it |-> ZeroBag(ids), kind |-> "map"]
                  [] t.op.o = "sort" ->
                        [ex |-> AddBag(c.ex, c.it), it |-> ZeroBag(ids), kind |-> "seq"]
                  \* an extension operation: apply_custom_unary_operation(operation, target) receives the TARGET
                  \* RELATION and executes it itself (the documented recipe; the harness engine then consumes the
                  \* rows eagerly).  The pinned-commit execute() had ALREADY executed the target before it
                  \* dispatched on the operation (finding F29): whatever the target does at execute time - a
                  \* sort, a deduplication, another extension operation - was done twice
                  [] t.op.o = "cust" ->
                        [ex |-> IF FixF29 THEN AddBag(c.ex, c.it) ELSE AddBag(c.ex, AddBag(c.ex, c.it)),
                         it |-> ZeroBag(ids), kind |-> "seq"])
           [] t.k = "bin" ->
                LET l == CostG(t.l, ids, lk)  r == CostG(t.r, ids, lk) IN
                [ex |-> AddBag(l.ex, r.ex), it |-> AddBag(l.it, r.it), kind |-> "lazy"]
           [] t.k = "mat" ->
                LET cm == CostG(t.t, ids, lk) IN
                IF cm.kind \in {"seq", "map", "cmat"} THEN cm
                ELSE [ex |-> AddBag(cm.ex, cm.it), it |-> ZeroBag(ids), kind |-> "seq"]
           [] t.k = "xfer" -> CostG(t.t, ids, lk)
Cost(t) == CostG(t, LeafIds(t), "lazy")
CostM(t) == CostG(t, LeafIds(t), "cmat")

\* the operation set for which C18 promises full laziness
RECURSIVE LazyOnly(_)
LazyOnly(t) ==
    CASE t.k = "leaf" -> TRUE
      [] t.k = "un" -> t.op.o \in {"calc", "proj", "sel", "slice"} /\ LazyOnly(t.t)
      [] t.k = "bin" -> t.op.o = "chain" /\ LazyOnly(t.l) /\ LazyOnly(t.r)
      [] OTHER -> FALSE

\* number of occurrences of each leaf in the tree (a shared leaf counts per path)
RECURSIVE OccG(_, _)
OccG(t, ids) ==
    CASE t.k = "leaf" -> [i \in ids |-> IF i = t.id THEN 1 ELSE 0]
      [] t.k = "un" -> OccG(t.t, ids)
      [] t.k = "bin" -> AddBag(OccG(t.l, ids), OccG(t.r, ids))
      [] t.k \in {"mat", "xfer"} -> OccG(t.t, ids)
Occ(t) == OccG(t, LeafIds(t))
=============================================================================
