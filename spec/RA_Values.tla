------------------------------ MODULE RA_Values ------------------------------
(***************************************************************************)
(* Values, rows, column expressions, predicates and containers of          *)
(* lsst.daf.relation, with                                                 *)
(*   - the REFERENCE meaning (EvalE / EvalP): what an expression means,    *)
(*   - the code-shaped static analyses (ReqE/ReqP = columns_required,      *)
(*     AsTrivial = Predicate.as_trivial, FlattenAnd = flatten_logical_and, *)
(*     NormSel = Selection.__post_init__),                                 *)
(*   - the code-shaped SQL translation SqlE / SqlP                         *)
(*     (sql.Engine.convert_column_expression / convert_predicate) into an  *)
(*     abstract SQL expression, and EvalSqlE / EvalSqlP = what a database  *)
(*     with SQLite arithmetic (truncating %) computes for it.              *)
(*                                                                         *)
(* Abstract syntax (tagged records; the same JSON shape is used by the     *)
(* harness, DESIGN.md appendix B):                                         *)
(*   expr := [x|->"ref",c] | [x|->"lit",v] | [x|->"fn",f,args]             *)
(*   pred := [p|->"lit",v] | [p|->"pref",c] | [p|->"cmp",f,l,r]            *)
(*         | [p|->"not",q] | [p|->"and",qs] | [p|->"or",qs]                *)
(*         | [p|->"in",e,k]                                                *)
(*   k    := [k|->"range",s,t,st] | [k|->"seq",items]                      *)
(*   "only" (optional field of fn / cmp): engine kind that supports it     *)
(***************************************************************************)
EXTENDS Integers, Sequences, FiniteSets, TLC

Max2(a, b) == IF a >= b THEN a ELSE b
Min2(a, b) == IF a <= b THEN a ELSE b
Abs(a) == IF a >= 0 THEN a ELSE -a
SeqSet(s) == {s[i] : i \in DOMAIN s}

RECURSIVE FlatSeq(_)
FlatSeq(ss) == IF ss = <<>> THEN <<>> ELSE Head(ss) \o FlatSeq(Tail(ss))

RECURSIVE UnionAll(_)
UnionAll(ss) == IF ss = <<>> THEN {} ELSE Head(ss) \cup UnionAll(Tail(ss))

Has(r, f) == f \in DOMAIN r

(* -------- rows -------- *)
Restrict(row, cs) == [c \in cs |-> row[c]]
Extend(row, c, v) == [d \in (DOMAIN row) \cup {c} |-> IF d = c THEN v ELSE row[d]]
MergeRows(r1, r2) == [d \in (DOMAIN r1) \cup (DOMAIN r2) |->
                         IF d \in DOMAIN r1 THEN r1[d] ELSE r2[d]]

(* -------- constructors (keep specs readable) -------- *)
Ref(c) == [x |-> "ref", c |-> c]
Lit(v) == [x |-> "lit", v |-> v]
Fn(f, args) == [x |-> "fn", f |-> f, args |-> args]
PLit(v) == [p |-> "lit", v |-> v]
PRef(c) == [p |-> "pref", c |-> c]
Cmp(f, l, r) == [p |-> "cmp", f |-> f, l |-> l, r |-> r]
Not(q) == [p |-> "not", q |-> q]
And(qs) == [p |-> "and", qs |-> qs]
Or(qs) == [p |-> "or", qs |-> qs]
In(e, k) == [p |-> "in", e |-> e, k |-> k]
Range(s, t, st) == [k |-> "range", s |-> s, t |-> t, st |-> st]
SeqC(items) == [k |-> "seq", items |-> items]

(***************************************************************************)
(* Reference meaning                                                       *)
(***************************************************************************)
\* Python range membership, any sign of step (step # 0).
InRange(v, s, t, st) ==
    IF st > 0 THEN v >= s /\ v < t /\ (v - s) % st = 0
              ELSE v <= s /\ v > t /\ (s - v) % (-st) = 0

ApplyFn(f, a) ==
    CASE f = "neg" -> -a[1]
      [] f = "add" -> a[1] + a[2]
      [] f = "sub" -> a[1] - a[2]
      [] f = "mul" -> a[1] * a[2]

ApplyCmp(f, l, r) ==
    CASE f = "eq" -> l = r
      [] f = "ne" -> l # r
      [] f = "lt" -> l < r
      [] f = "le" -> l <= r
      [] f = "gt" -> l > r
      [] f = "ge" -> l >= r

RECURSIVE EvalE(_, _)
EvalE(e, row) ==
    CASE e.x = "ref" -> row[e.c]
      [] e.x = "lit" -> e.v
      [] e.x = "fn"  -> ApplyFn(e.f, [i \in DOMAIN e.args |-> EvalE(e.args[i], row)])

RECURSIVE EvalP(_, _)
EvalP(p, row) ==
    CASE p.p = "lit"  -> p.v
      [] p.p = "pref" -> row[p.c] # 0
      [] p.p = "cmp"  -> ApplyCmp(p.f, EvalE(p.l, row), EvalE(p.r, row))
      [] p.p = "not"  -> ~EvalP(p.q, row)
      [] p.p = "and"  -> \A i \in DOMAIN p.qs : EvalP(p.qs[i], row)
      [] p.p = "or"   -> \E i \in DOMAIN p.qs : EvalP(p.qs[i], row)
      [] p.p = "in"   ->
            LET v == EvalE(p.e, row) IN
            IF p.k.k = "range" THEN InRange(v, p.k.s, p.k.t, p.k.st)
            ELSE \E i \in DOMAIN p.k.items : EvalE(p.k.items[i], row) = v

(***************************************************************************)
(* columns_required                                                        *)
(***************************************************************************)
RECURSIVE ReqE(_)
ReqE(e) ==
    CASE e.x = "ref" -> {e.c}
      [] e.x = "lit" -> {}
      [] e.x = "fn"  -> UNION {ReqE(e.args[i]) : i \in DOMAIN e.args}

ReqK(k) == IF k.k = "range" THEN {} ELSE UNION {ReqE(k.items[i]) : i \in DOMAIN k.items}

RECURSIVE ReqP(_)
ReqP(p) ==
    CASE p.p = "lit"  -> {}
      [] p.p = "pref" -> {p.c}
      [] p.p = "cmp"  -> ReqE(p.l) \cup ReqE(p.r)
      [] p.p = "not"  -> ReqP(p.q)
      [] p.p \in {"and", "or"} -> UNION {ReqP(p.qs[i]) : i \in DOMAIN p.qs}
      [] p.p = "in"   -> ReqE(p.e) \cup ReqK(p.k)

(***************************************************************************)
(* is_supported_by(engine kind): a function may be restricted to one kind  *)
(* of engine ("only" field); kinds are "sql" and "iter".                   *)
(***************************************************************************)
RECURSIVE SupE(_, _)
SupE(e, kind) ==
    CASE e.x \in {"ref", "lit"} -> TRUE
      [] e.x = "fn" -> /\ (Has(e, "only") => e.only = kind)
                       /\ \A i \in DOMAIN e.args : SupE(e.args[i], kind)

RECURSIVE SupP(_, _)
SupP(p, kind) ==
    CASE p.p \in {"lit", "pref"} -> TRUE
      [] p.p = "cmp" -> /\ (Has(p, "only") => p.only = kind)
                        /\ SupE(p.l, kind) /\ SupE(p.r, kind)
      [] p.p = "not" -> SupP(p.q, kind)
      [] p.p \in {"and", "or"} -> \A i \in DOMAIN p.qs : SupP(p.qs[i], kind)
      [] p.p = "in" -> /\ SupE(p.e, kind)
                       /\ (p.k.k = "seq" => \A i \in DOMAIN p.k.items : SupE(p.k.items[i], kind))

(***************************************************************************)
(* Predicate.as_trivial : "T" | "F" | "N"  (True / False / None)           *)
(***************************************************************************)
RECURSIVE AsTrivial(_)
AsTrivial(p) ==
    CASE p.p = "lit" -> IF p.v THEN "T" ELSE "F"
      [] p.p \in {"pref", "cmp", "in"} -> "N"
      [] p.p = "not" -> LET t == AsTrivial(p.q) IN
                        IF t = "N" THEN "N" ELSE IF t = "T" THEN "F" ELSE "T"
      [] p.p = "and" -> LET ts == {AsTrivial(p.qs[i]) : i \in DOMAIN p.qs} IN
                        IF "F" \in ts THEN "F" ELSE IF "N" \in ts THEN "N" ELSE "T"
      [] p.p = "or"  -> LET ts == {AsTrivial(p.qs[i]) : i \in DOMAIN p.qs} IN
                        IF "T" \in ts THEN "T" ELSE IF "N" \in ts THEN "N" ELSE "F"

(***************************************************************************)
(* flatten_logical_and : [ok |-> FALSE] (the code's literal False)         *)
(*                     | [ok |-> TRUE, ps |-> <<conjuncts>>]               *)
(***************************************************************************)
RECURSIVE FlattenAnd(_)
FlattenAnd(p) ==
    CASE p.p = "and" ->
            LET subs == [i \in DOMAIN p.qs |-> FlattenAnd(p.qs[i])] IN
            IF \E i \in DOMAIN subs : ~subs[i].ok
            THEN [ok |-> FALSE, ps |-> <<>>]
            ELSE [ok |-> TRUE, ps |-> FlatSeq([i \in DOMAIN subs |-> subs[i].ps])]
      [] p.p = "lit" -> IF p.v THEN [ok |-> TRUE, ps |-> <<>>] ELSE [ok |-> FALSE, ps |-> <<>>]
      [] OTHER -> [ok |-> TRUE, ps |-> <<p>>]

\* Predicate.logical_and(*operands)
LogicalAndOf(ps) == IF Len(ps) = 0 THEN PLit(TRUE) ELSE IF Len(ps) = 1 THEN ps[1] ELSE And(ps)
LogicalOrOf(ps) == IF Len(ps) = 0 THEN PLit(FALSE) ELSE IF Len(ps) = 1 THEN ps[1] ELSE Or(ps)

\* Selection.__post_init__
NormSel(p) == LET f == FlattenAnd(p) IN IF f.ok THEN LogicalAndOf(f.ps) ELSE p

(***************************************************************************)
(* SQL translation, as coded (sql/_engine.py, the convert_ methods).      *)
(*   sql := [s|->"col",c] | [s|->"lit",v] | [s|->"blit",v]                 *)
(*        | [s|->"fn",f,args] | [s|->"cmp",f,l,r] | [s|->"not",q]          *)
(*        | [s|->"and",qs] | [s|->"or",qs] | [s|->"between",e,lo,hi]       *)
(*        | [s|->"mod",l,r] | [s|->"in",e,items]                           *)
(***************************************************************************)
RECURSIVE SqlE(_)
SqlE(e) ==
    CASE e.x = "ref" -> [s |-> "col", c |-> e.c]
      [] e.x = "lit" -> [s |-> "lit", v |-> e.v]
      [] e.x = "fn"  -> [s |-> "fn", f |-> e.f, args |-> [i \in DOMAIN e.args |-> SqlE(e.args[i])]]

\* Python's start % step (floor modulus, sign of the divisor), step # 0
PyMod(a, b) == IF b > 0 THEN a % b ELSE -((-a) % (-b))

\* ColumnRangeLiteral membership after the fix of finding F3 (sql/_engine.py):
\* a descending range is first replaced by the ascending range with the same
\* members (an empty one by range(0)); then, as before, BETWEEN start AND stop-1,
\* plus a modulus test when step # 1.  For start >= 0 the modulus test is the
\* pinned "item % step = start % step"; for start < 0 it is made on
\* (item - start), which is non-negative inside the BETWEEN window, so SQL's
\* truncating % and Python's floor % coincide.
RangeCount(s, t, st) ==
    IF st > 0 THEN (IF t > s THEN (t - s + st - 1) \div st ELSE 0)
              ELSE (IF t < s THEN (s - t + (-st) - 1) \div (-st) ELSE 0)

NormRange(s, t, st) ==
    IF st > 0 THEN <<s, t, st>>
    ELSE LET n == RangeCount(s, t, st) IN
         IF n = 0 THEN <<0, 0, 1>> ELSE <<s + (n - 1) * st, s + 1, -st>>

SqlRange(item, s0, t0, st0) ==
    LET nr == NormRange(s0, t0, st0)
        s == nr[1]  t == nr[2]  st == nr[3]
        stopInc == t - 1
    IN
    IF s = stopInc THEN [s |-> "cmp", f |-> "eq", l |-> item, r |-> [s |-> "lit", v |-> s]]
    ELSE LET btw == [s |-> "between", e |-> item, lo |-> [s |-> "lit", v |-> s],
                     hi |-> [s |-> "lit", v |-> stopInc]] IN
         IF st = 1 THEN btw
         ELSE IF s >= 0
              THEN [s |-> "and", qs |-> <<btw,
                     [s |-> "cmp", f |-> "eq",
                      l |-> [s |-> "mod", l |-> item, r |-> [s |-> "lit", v |-> st]],
                      r |-> [s |-> "lit", v |-> s % st]]>>]
              ELSE [s |-> "and", qs |-> <<btw,
                     [s |-> "cmp", f |-> "eq",
                      l |-> [s |-> "mod",
                             l |-> [s |-> "fn", f |-> "sub", args |-> <<item, [s |-> "lit", v |-> s]>>],
                             r |-> [s |-> "lit", v |-> st]],
                      r |-> [s |-> "lit", v |-> 0]]>>]

\* The translation as it was at the pinned commit (kept for the companion
\* configuration that re-derives finding F3 as a TLC counterexample).
SqlRangeOld(item, s, t, st) ==
    LET stopInc == t - 1 IN
    IF s = stopInc THEN [s |-> "cmp", f |-> "eq", l |-> item, r |-> [s |-> "lit", v |-> s]]
    ELSE LET btw == [s |-> "between", e |-> item, lo |-> [s |-> "lit", v |-> s],
                     hi |-> [s |-> "lit", v |-> stopInc]] IN
         IF st # 1
         THEN [s |-> "and", qs |-> <<btw,
                 [s |-> "cmp", f |-> "eq",
                  l |-> [s |-> "mod", l |-> item, r |-> [s |-> "lit", v |-> st]],
                  r |-> [s |-> "lit", v |-> PyMod(s, st)]]>>]
         ELSE btw

RECURSIVE SqlPG(_, _)
SqlPG(p, old) ==
    CASE p.p = "lit"  -> [s |-> "blit", v |-> p.v]
      [] p.p = "pref" -> [s |-> "col", c |-> p.c]
      [] p.p = "cmp"  -> [s |-> "cmp", f |-> p.f, l |-> SqlE(p.l), r |-> SqlE(p.r)]
      [] p.p = "not"  -> [s |-> "not", q |-> SqlPG(p.q, old)]
      [] p.p = "and"  -> IF Len(p.qs) = 0 THEN [s |-> "blit", v |-> TRUE]
                         ELSE IF Len(p.qs) = 1 THEN SqlPG(p.qs[1], old)
                         ELSE [s |-> "and", qs |-> [i \in DOMAIN p.qs |-> SqlPG(p.qs[i], old)]]
      [] p.p = "or"   -> IF Len(p.qs) = 0 THEN [s |-> "blit", v |-> FALSE]
                         ELSE IF Len(p.qs) = 1 THEN SqlPG(p.qs[1], old)
                         ELSE [s |-> "or", qs |-> [i \in DOMAIN p.qs |-> SqlPG(p.qs[i], old)]]
      [] p.p = "in"   ->
            IF p.k.k = "range"
            THEN IF old THEN SqlRangeOld(SqlE(p.e), p.k.s, p.k.t, p.k.st)
                        ELSE SqlRange(SqlE(p.e), p.k.s, p.k.t, p.k.st)
            ELSE [s |-> "in", e |-> SqlE(p.e),
                  items |-> [i \in DOMAIN p.k.items |-> SqlE(p.k.items[i])]]

SqlP(p) == SqlPG(p, FALSE)
SqlPOld(p) == SqlPG(p, TRUE)

\* convert_flattened_predicate : sequence of SQL terms, AND-ed by the caller
SqlFlat(p) == LET f == FlattenAnd(p) IN
              IF ~f.ok THEN << [s |-> "blit", v |-> FALSE] >>
              ELSE [i \in DOMAIN f.ps |-> SqlP(f.ps[i])]

(***************************************************************************)
(* What the database computes (SQLite: % truncates toward zero, sign of    *)
(* the dividend; divisor sign ignored).  row maps column names to ints.    *)
(***************************************************************************)
TruncMod(a, b) == LET m == Abs(b) IN IF a >= 0 THEN a % m ELSE -((-a) % m)

RECURSIVE EvalSqlE(_, _)
EvalSqlE(q, row) ==
    CASE q.s = "col" -> row[q.c]
      [] q.s = "lit" -> q.v
      [] q.s = "fn"  -> ApplyFn(q.f, [i \in DOMAIN q.args |-> EvalSqlE(q.args[i], row)])
      [] q.s = "mod" -> TruncMod(EvalSqlE(q.l, row), EvalSqlE(q.r, row))

RECURSIVE EvalSqlP(_, _)
EvalSqlP(q, row) ==
    CASE q.s = "blit" -> q.v
      [] q.s = "col"  -> row[q.c] # 0
      [] q.s = "cmp"  -> ApplyCmp(q.f, EvalSqlE(q.l, row), EvalSqlE(q.r, row))
      [] q.s = "not"  -> ~EvalSqlP(q.q, row)
      [] q.s = "and"  -> \A i \in DOMAIN q.qs : EvalSqlP(q.qs[i], row)
      [] q.s = "or"   -> \E i \in DOMAIN q.qs : EvalSqlP(q.qs[i], row)
      [] q.s = "between" -> LET v == EvalSqlE(q.e, row) IN
                            v >= EvalSqlE(q.lo, row) /\ v <= EvalSqlE(q.hi, row)
      [] q.s = "in"   -> \E i \in DOMAIN q.items : EvalSqlE(q.items[i], row) = EvalSqlE(q.e, row)

=============================================================================
