SPECIFICATION Spec
CONSTANTS
  Mode = "general"
  SortFix = TRUE
  Clamp = TRUE
  ExcludeKF = TRUE
  Emit = TRUE
INVARIANT CommuteSound
INVARIANT MergeSound
INVARIANT EmitState
CHECK_DEADLOCK FALSE
