------------------------------- MODULE ExprGen -------------------------------
(***************************************************************************)
(* Behaviour spec that grows column expressions / predicates by wrapping,  *)
(* and checks on every one of them (properties C12, C13):                  *)
(*   SqlAgrees      the SQL translation, evaluated with SQLite arithmetic, *)
(*                  equals the reference meaning on every row              *)
(*   TrivialSound   as_trivial() answers are true on every row             *)
(*   FlattenSound   flatten_logical_and() is equivalent / False only for   *)
(*                  unsatisfiable predicates                               *)
(*   NormSound      Selection's stored predicate is equivalent             *)
(*   ReqSufficient  evaluating on a row restricted to columns_required     *)
(*                  gives the same value                                   *)
(* Every state is emitted as one JSON line (Binding A) carrying the        *)
(* predicate and its truth table over Rows; the harness evaluates the REAL *)
(* iteration callable and the REAL SQL translation (on SQLite) on the same *)
(* rows and compares.                                                      *)
(***************************************************************************)
EXTENDS RA_Values, Json

CONSTANTS Lo, Hi,          \* rows range over a, b \in Lo..Hi
          LitVals,         \* integer literals used in atoms
          RangeLo, RangeHi,\* range start/stop drawn from RangeLo..RangeHi
          Steps,           \* range steps
          MaxDepth,        \* number of wrapping steps
          Rich,            \* TRUE: larger atom/operand menus
          OldRange,        \* TRUE: use the pinned-commit range translation (F3 companion)
          Emit             \* TRUE: print every state as JSON

VARIABLES kind,  \* "pred" | "expr"
          cur,   \* the predicate / expression
          depth

vars == <<kind, cur, depth>>

N == Hi - Lo + 1
RowAt(i) == [a |-> Lo + ((i - 1) \div N), b |-> Lo + ((i - 1) % N)]
NRows == N * N
Rows == {RowAt(i) : i \in 1..NRows}

Refs == {Ref("a"), Ref("b")}
E0 == Refs \cup {Lit(v) : v \in LitVals}
E1 == {Fn("neg", <<e>>) : e \in Refs}
        \cup {Fn(f, <<l, r>>) : f \in {"add", "sub", "mul"}, l \in Refs, r \in E0}
E2 == IF Rich
      THEN {Fn("neg", <<e>>) : e \in E1} \cup
           {Fn(f, <<l, r>>) : f \in {"add", "sub", "mul"}, l \in {Fn("add", <<Ref("a"), Ref("b")>>), Fn("neg", <<Ref("b")>>)}, r \in E0}
      ELSE {}
Exprs == E0 \cup E1 \cup E2

CmpFns == {"eq", "ne", "lt", "le", "gt", "ge"}
CmpL == IF Rich THEN Refs \cup E1 ELSE {Ref("a"), Fn("add", <<Ref("a"), Ref("b")>>), Fn("mul", <<Ref("a"), Ref("b")>>), Fn("neg", <<Ref("b")>>)}
CmpR == IF Rich THEN E0 ELSE {Ref("b"), Lit(1)}
Ranges == {Range(s, t, st) : s \in RangeLo..RangeHi, t \in RangeLo..RangeHi, st \in Steps}
RangeItems == IF Rich THEN {Ref("a"), Fn("sub", <<Ref("a"), Ref("b")>>)} ELSE {Ref("a")}
Seqs == {SeqC(<<>>), SeqC(<<Lit(1)>>), SeqC(<<Ref("b"), Lit(0)>>), SeqC(<<Lit(2), Lit(-1), Ref("b")>>),
         SeqC(<<Fn("add", <<Ref("b"), Lit(1)>>), Lit(1), Lit(1)>>),
         \* all-literal sequences: consecutive, unordered, with duplicates, with gaps hidden by duplicates
         SeqC(<<Lit(1), Lit(1), Lit(3)>>), SeqC(<<Lit(2), Lit(0), Lit(1)>>), SeqC(<<Lit(3), Lit(3)>>),
         SeqC(<<Lit(-1), Lit(1), Lit(0), Lit(0), Lit(3)>>), SeqC(<<Lit(-2), Lit(-1), Lit(0), Lit(1)>>)}

PredAtoms == {PLit(TRUE), PLit(FALSE)}
               \cup {Cmp(f, l, r) : f \in CmpFns, l \in CmpL, r \in CmpR}
               \cup {In(e, k) : e \in RangeItems, k \in Ranges}
               \cup {In(e, k) : e \in Refs, k \in Seqs}

\* operands used when wrapping
Small == {PLit(TRUE), PLit(FALSE), Cmp("lt", Ref("a"), Ref("b")), Cmp("eq", Ref("b"), Lit(0)),
          And(<<>>), Or(<<>>), And(<<PLit(TRUE), Cmp("ge", Ref("a"), Lit(0))>>),
          Not(PLit(FALSE)), Or(<<PLit(FALSE), Cmp("gt", Ref("b"), Lit(1))>>),
          And(<<PLit(FALSE), Cmp("gt", Ref("b"), Lit(1))>>)}
Small2 == IF Rich THEN {PLit(TRUE), Cmp("ne", Ref("a"), Lit(1)), And(<<And(<<Cmp("le", Ref("b"), Lit(2))>>), PLit(TRUE)>>)}
          ELSE {PLit(TRUE)}

Wrap(p) ==
    {Not(p), And(<<p>>), Or(<<p>>)}
      \cup {And(<<p, q>>) : q \in Small} \cup {And(<<q, p>>) : q \in Small}
      \cup {Or(<<p, q>>) : q \in Small}  \cup {Or(<<q, p>>) : q \in Small}
      \cup {And(<<q, p, r>>) : q \in Small2, r \in Small2}
      \cup {Or(<<q, p, r>>) : q \in Small2, r \in Small2}

Init == \/ /\ kind = "pred" /\ cur \in PredAtoms \cup {And(<<>>), Or(<<>>)} /\ depth = 0
        \/ /\ kind = "expr" /\ cur \in Exprs /\ depth = 0

Next == /\ kind = "pred" /\ depth < MaxDepth
        /\ cur' \in Wrap(cur) /\ depth' = depth + 1 /\ kind' = kind

Spec == Init /\ [][Next]_vars

(* ---------------- invariants ---------------- *)
Tr(p) == IF OldRange THEN SqlPOld(p) ELSE SqlP(p)

SqlAgrees ==
    IF kind = "pred"
    THEN \A row \in Rows : EvalSqlP(Tr(cur), row) = EvalP(cur, row)
    ELSE \A row \in Rows : EvalSqlE(SqlE(cur), row) = EvalE(cur, row)

SqlFlatAgrees ==
    kind = "pred" =>
        LET ts == SqlFlat(cur) IN
        \A row \in Rows : (\A i \in DOMAIN ts : EvalSqlP(ts[i], row)) = EvalP(cur, row)

TrivialSound ==
    kind = "pred" =>
        LET t == AsTrivial(cur) IN
        /\ t = "T" => \A row \in Rows : EvalP(cur, row)
        /\ t = "F" => \A row \in Rows : ~EvalP(cur, row)

FlattenSound ==
    kind = "pred" =>
        LET f == FlattenAnd(cur) IN
        IF f.ok THEN \A row \in Rows : (\A i \in DOMAIN f.ps : EvalP(f.ps[i], row)) = EvalP(cur, row)
                ELSE \A row \in Rows : ~EvalP(cur, row)

NormSound ==
    kind = "pred" => \A row \in Rows : EvalP(NormSel(cur), row) = EvalP(cur, row)

ReqSufficient ==
    IF kind = "pred"
    THEN \A row \in Rows : EvalP(cur, Restrict(row, ReqP(cur))) = EvalP(cur, row)
    ELSE \A row \in Rows : EvalE(cur, Restrict(row, ReqE(cur))) = EvalE(cur, row)

\* Does any column matter?  (used for the non-vacuity statistics)
Table == IF kind = "pred" THEN [i \in 1..NRows |-> EvalP(cur, RowAt(i))]
                          ELSE [i \in 1..NRows |-> EvalE(cur, RowAt(i))]

EmitState ==
    Emit => PrintT(<<"ST", ToJson([kind |-> kind, e |-> cur, lo |-> Lo, hi |-> Hi,
                                   table |-> Table,
                                   triv |-> IF kind = "pred" THEN AsTrivial(cur) ELSE "N",
                                   req |-> IF kind = "pred" THEN ReqP(cur) ELSE ReqE(cur)])>>)

=============================================================================
