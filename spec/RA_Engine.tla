------------------------------ MODULE RA_Engine ------------------------------
(***************************************************************************)
(* The tree-building protocol of lsst.daf.relation, one operator per       *)
(* method of the code (DESIGN.md appendix A.1-A.4, A.7, A.8):              *)
(*                                                                         *)
(*   BeginApply     UnaryOperation._begin_apply  (per class)               *)
(*   FinishApply    UnaryOperation._finish_apply (+ simplify recursion)    *)
(*   ApplyUnary     UnaryOperation.apply  (preferred-engine protocol)      *)
(*   Backtrack      iteration.Engine.backtrack_unary                       *)
(*   CommuteX       commute incl. PartialJoin.commute                      *)
(*   AppendUnary    Engine.append_unary (base / sql)                       *)
(*   ApplyBinary    BinaryOperation.apply (Chain, Join incl. _begin_apply) *)
(*   TransferTo     Engine.transfer  (base / sql)  + Transfer.simplify     *)
(*   Materialize    Engine.materialize (base / sql) + Materialization.simp.*)
(*   Conform, SqlAppendUnary, SqlAppendBinary, ApplySkip, Strip            *)
(*                  the SQL engine's five-slot Select machine              *)
(*                                                                         *)
(* Raising is a value [err |-> class]; "OrderLoss" is the documented       *)
(* RelationalAlgebraError of the SQL engine for a sort that would be lost. *)
(*                                                                         *)
(* A PartialJoin is [o|->"pjoin", fixed, p, common, res]  (res: common     *)
(* columns resolved; lhs: fixed_is_lhs, FALSE as Relation.join builds it). *)
(***************************************************************************)
EXTENDS RA_Tree

Bind(x, F(_)) == IF IsErr(x) THEN x ELSE F(x)

\* TRUE: the code after the fix of the finding of that number; a companion configuration overrides
\* the definition with FALSE and re-derives the counterexample from the pinned-commit rule
FixF17 == TRUE
FixF18 == TRUE
FixF20 == TRUE
FixF28 == TRUE
FixF30 == TRUE
FixF22 == TRUE
FixF23 == TRUE
FixF24 == TRUE

Opts(pref, backtrack, transfer, require) ==
    [pref |-> pref, backtrack |-> backtrack, transfer |-> transfer, require |-> require]
DefaultOpts == Opts("none", TRUE, FALSE, FALSE)

PJoin(fixed, p) == [o |-> "pjoin", fixed |-> fixed, p |-> p, common |-> {}, res |-> FALSE, lhs |-> FALSE]
\* Join(p).partial(fixed, is_lhs=True): the fixed operand is the LEFT side
PJoinL(fixed, p) == [o |-> "pjoin", fixed |-> fixed, p |-> p, common |-> {}, res |-> FALSE, lhs |-> TRUE]

(***************************************************************************)
(* _finish_apply for the operations that become nodes                      *)
(***************************************************************************)
RECURSIVE FinishApply(_, _)
FinishApply(op, t) ==
    IF IsNoOp(op, Cols(t)) THEN t
    ELSE LET s == IF t.k = "un" THEN Simplify(op, t.op) ELSE NoSimp IN
         IF IsErr(s) THEN s
         ELSE IF s.some THEN (IF s.op = t.op THEN t ELSE FinishApply(s.op, t.t))
         ELSE IF ~SupOp(op, KindOf(Eng(t))) THEN Err("EngineError")
         ELSE Un(op, t)

(***************************************************************************)
(* Select.apply_skip                                                       *)
(***************************************************************************)
ApplySkip(skip, sort, proj, dedup, a, b) ==
    LET t1 == IF sort # <<>> THEN FinishApply(Sort(sort), skip) ELSE skip
        t2 == Bind(t1, LAMBDA x : IF proj.some THEN FinishApply(Proj(proj.cols), x) ELSE x)
        t3 == Bind(t2, LAMBDA x : IF dedup THEN FinishApply(Dedup, x) ELSE x)
        t4 == Bind(t3, LAMBDA x : IF a # 0 \/ b # -1 THEN FinishApply(Slice(a, b), x) ELSE x)
    IN Bind(t4, LAMBDA x : [k |-> "sel", sort |-> sort, proj |-> proj, dedup |-> dedup,
                            a |-> a, b |-> b, skip |-> skip, t |-> x])

PlainSel(skip) == ApplySkip(skip, <<>>, NoProj, FALSE, 0, -1)

\* Select.strip.  noStripCompound = TRUE: the code after the fix of finding
\* F12 (a compound select is kept as a sub-query operand of a join).
StripG(s, noStripCompound) ==
    IF ~s.dedup /\ ~HasSort(s) /\ ~HasSlice(s) /\ ~(noStripCompound /\ IsCompound(s))
    THEN [t |-> s.skip, np |-> s.proj.some]
    ELSE [t |-> s, np |-> FALSE]

(***************************************************************************)
(* Transfer.simplify / Materialization.simplify                            *)
(***************************************************************************)
RECURSIVE TransferSimplify(_, _)
\* returns [some |-> FALSE] or [some |-> TRUE, t |-> tree]
TransferSimplify(t, dest) ==
    IF Locked(t) THEN [some |-> FALSE]
    ELSE CASE t.k = "xfer" -> IF dest = Eng(t.t) THEN [some |-> TRUE, t |-> t.t]
                              ELSE TransferSimplify(t.t, dest)
           [] t.k = "sel"  -> TransferSimplify(t.t, dest)
           [] OTHER -> [some |-> FALSE]

RECURSIVE MaterializeSimplify(_)
MaterializeSimplify(t) ==
    CASE t.k \in {"mat", "leaf"} -> TRUE
      [] t.k \in {"xfer", "sel"} -> IF Eng(t) = Eng(t.t) THEN MaterializeSimplify(t.t) ELSE FALSE
      [] OTHER -> FALSE

(***************************************************************************)
(* Everything below is mutually recursive.                                 *)
(***************************************************************************)
RECURSIVE Conform(_)
RECURSIVE SqlAppendUnary(_, _)
RECURSIVE SqlAppendBinary(_, _, _)
RECURSIVE AppendUnary(_, _)
RECURSIVE ApplyUnary(_, _, _)
RECURSIVE Backtrack(_, _, _)
RECURSIVE ApplyBinary(_, _, _)
RECURSIVE JoinFinish(_, _, _)
RECURSIVE FinishApplyX(_, _)
RECURSIVE TransferTo(_, _)

(* ---------------- Join / Chain ---------------- *)
\* Join._finish_apply
\* (fix of finding F14: the identity short-cut applies only when there is no
\* join predicate to evaluate)
JoinFinish(jop, l, r) ==
    IF JoinIdentity(l) /\ AsTrivial(jop.p) = "T" THEN r
    ELSE IF JoinIdentity(r) /\ AsTrivial(jop.p) = "T" THEN l
    ELSE IF Eng(l) # Eng(r) THEN Err("EngineError")
    ELSE IF ~SupP(jop.p, KindOf(Eng(l))) THEN Err("EngineError")
    ELSE Bin(jop, l, r)

\* BinaryOperation.apply : _begin_apply, then Engine.append_binary
ApplyBinary(bop, l, r) ==
    IF bop.o = "chain"
    THEN IF Eng(l) # Eng(r) THEN Err("EngineError")
         ELSE IF Cols(l) # Cols(r) THEN Err("ColumnError")
         ELSE IF KindOf(Eng(l)) = "sql" THEN Bind(Conform(l), LAMBDA cl : Bind(Conform(r), LAMBDA cr : SqlAppendBinary(bop, cl, cr)))
         ELSE Bin(ChainOp, l, r)
    ELSE \* join, common columns resolved or not (bop.res)
         IF ~(ReqP(bop.p) \subseteq (Cols(l) \cup Cols(r))) THEN Err("ColumnError")
         ELSE LET \* Join.applied_common_columns: the shared key columns, restricted to an explicit
                  \* max_columns (field mx, optional) and required to cover min_columns (field mn, optional)
                  keys == {c \in Cols(l) \cap Cols(r) : IsKey(c)}
                  common == IF bop.res THEN bop.common
                            ELSE IF Has(bop, "mx") THEN keys \cap bop.mx ELSE keys
                  jop == JoinOp(bop.p, common)
              IN IF bop.res /\ ~(common \subseteq Cols(l) /\ common \subseteq Cols(r)) THEN Err("ColumnError")
                 ELSE IF ~bop.res /\ Has(bop, "mn") /\ ~(bop.mn \subseteq common) THEN Err("ColumnError")
                 \* (fix of finding F24) the SQL engine conformed - i.e. wrapped in one of its Select markers -
                 \* the operand it hands back even when that operand lives in another engine
                 ELSE IF JoinIdentity(l) /\ AsTrivial(bop.p) = "T"
                      THEN (IF KindOf(Eng(l)) = "sql" /\ (~FixF24 \/ Eng(r) = Eng(l)) THEN Conform(r) ELSE r)
                 ELSE IF JoinIdentity(r) /\ AsTrivial(bop.p) = "T" THEN (IF KindOf(Eng(l)) = "sql" THEN Conform(l) ELSE l)
                 \* sql.Engine.append_binary conforms both operands first (an operand of another engine is
                 \* conformed structurally as well; the engine mismatch is only noticed by Join._finish_apply)
                 ELSE IF KindOf(Eng(l)) = "sql" THEN Bind(Conform(l), LAMBDA cl : Bind(Conform(r), LAMBDA cr : SqlAppendBinary(jop, cl, cr)))
                 ELSE JoinFinish(jop, l, r)

\* _finish_apply including PartialJoin._finish_apply
FinishApplyX(op, t) ==
    IF op.o = "pjoin"
    THEN LET jop == [o |-> "join", p |-> op.p, common |-> op.common, res |-> op.res] IN
         IF op.lhs THEN ApplyBinary(jop, op.fixed, t) ELSE ApplyBinary(jop, t, op.fixed)
    ELSE FinishApply(op, t)

(* ---------------- commute incl. PartialJoin ---------------- *)
\* TRUE: the code after the fix of finding F20 / F24 (companion configurations override them)
PJoinReq(op) == (ReqP(op.p) \ Cols(op.fixed)) \cup (IF op.res THEN op.common ELSE {})

\* TRUE: the code after the fix of finding F26 (a companion configuration overrides it)
FixF26 == TRUE
CommuteXR(new, curNode) ==
    LET cur == curNode.op
        tc == Cols(curNode.t)
    IN IF new.o # "pjoin" THEN Commute(new, cur, tc)
       \* (fix of finding F20) columns the new target shares with the fixed operand beyond the
       \* equality constraint would be replaced before the operations in between read them
       ELSE IF FixF20 /\ new.res /\ (((tc \cup Cols(curNode)) \cap Cols(new.fixed)) \ new.common) # {} THEN Refuse(cur)
       ELSE IF cur.o = "dedup" THEN Refuse(cur)
       ELSE IF cur.o = "proj" THEN Commutator(new, Proj(Cols(curNode) \cup Cols(new.fixed)), TRUE)
       ELSE IF ~(PJoinReq(new) \subseteq tc) THEN Refuse(cur)
       ELSE IF CountDep(cur) THEN Refuse(cur)
       ELSE Commutator(new, cur, TRUE)
\* (fix of finding F26) a partial join whose common columns are not resolved yet resolves them against
\* the relation it logically acts on - as _begin_apply does - before it asks whether it can move
CommuteX(new, curNode) ==
    IF FixF26 /\ new.o = "pjoin" /\ ~new.res
    THEN CommuteXR([new EXCEPT !.common = {c \in Cols(curNode) \cap Cols(new.fixed) : IsKey(c)}, !.res = TRUE], curNode)
    ELSE CommuteXR(new, curNode)

(* ---------------- _begin_apply ---------------- *)
\* [err] | [op |-> operation to apply, pref |-> engine]
BeginApply(op, t, pref) ==
    LET dflt == IF pref = "none" THEN Eng(t) ELSE pref IN
    IF op.o = "pjoin"
    THEN LET keys == {c \in Cols(op.fixed) \cap Cols(t) : IsKey(c)}
             common == IF op.res THEN op.common
                       ELSE IF Has(op, "mx") THEN keys \cap op.mx ELSE keys      \* explicit max_columns
             op1 == [op EXCEPT !.common = common, !.res = TRUE]
         IN IF ~(PJoinReq(op1) \subseteq Cols(t)) THEN Err("ColumnError")
            ELSE [op |-> op1, pref |-> IF pref = "none" THEN Eng(op.fixed) ELSE pref]
    ELSE LET e == BeginErr(op, Cols(t)) IN
         IF e # "none" THEN Err(e)
         ELSE IF IsNoOp(op, Cols(t)) THEN [op |-> IdOp, pref |-> Eng(t)]
         ELSE [op |-> op, pref |-> dflt]

(* ---------------- the SQL Select machine ---------------- *)
\* TRUE: the code after the fix of finding F22 (a companion configuration overrides it)
Conform(t) ==
    CASE t.k = "sel" -> t
      [] t.k = "un"  -> Bind(Conform(t.t), LAMBDA s : SqlAppendUnary(t.op, s))
      [] t.k = "bin" -> Bind(Conform(t.l), LAMBDA l :
                        Bind(Conform(t.r), LAMBDA r : SqlAppendBinary(t.op, l, r)))
      [] t.k \in {"xfer", "mat", "leaf"} -> PlainSel(t)

\* _append_unary_to_select
SqlAppendUnary(op, S) ==
    CASE op.o = "calc" ->
            IF IsCompound(S) THEN Bind(FinishApply(op, S), LAMBDA x : PlainSel(x))
            ELSE Bind(FinishApply(op, S.skip), LAMBDA k :
                    ApplySkip(k, S.sort,
                              IF S.proj.some THEN SomeProj(Cols(S) \cup {op.tag}) ELSE S.proj,
                              S.dedup, S.a, S.b))
      [] op.o = "dedup" ->
            IF S.dedup THEN S
            ELSE IF HasSlice(S) THEN ApplySkip(S, <<>>, NoProj, TRUE, 0, -1)
            \* (fix of finding F23) the sort needs columns this select's projection drops: SELECT DISTINCT
            \* cannot be ordered by them and a sub-query would not keep the order
            ELSE IF FixF23 /\ ~(ReqOp(Sort(S.sort)) \subseteq Cols(S)) THEN Err("OrderLoss")
            ELSE ApplySkip(S.skip, S.sort, S.proj, TRUE, S.a, S.b)
      [] op.o = "proj" ->
            IF S.dedup
            THEN IF ~(ReqOp(Sort(S.sort)) \subseteq Cols(S))
                 THEN \* (fix of finding F7) the sort needs columns this select's own
                      \* projection drops: it cannot move to the outer query
                      IF ~HasSlice(S) THEN Err("OrderLoss")
                      ELSE ApplySkip(S, <<>>, SomeProj(op.cols), FALSE, 0, -1)
                 ELSE Bind(ApplySkip(S.skip, <<>>, S.proj, S.dedup, 0, -1), LAMBDA q :
                         ApplySkip(q, S.sort, SomeProj(op.cols), FALSE, S.a, S.b))
            ELSE IF IsCompound(S) /\ ~(ReqOp(Sort(S.sort)) \subseteq op.cols)
            THEN \* (fix of finding F7) the projection cannot be pushed into the operands
                 Bind(ApplySkip(S.skip, <<>>, S.proj, S.dedup, 0, -1), LAMBDA q :
                    ApplySkip(q, S.sort, SomeProj(op.cols), FALSE, S.a, S.b))
            ELSE IF IsCompound(S)
            THEN Bind(ApplyUnary(op, S.skip.l, DefaultOpts), LAMBDA l :
                 Bind(ApplyUnary(op, S.skip.r, DefaultOpts), LAMBDA r :
                    ApplySkip(Bin(ChainOp, l, r), S.sort, NoProj, S.dedup, S.a, S.b)))
            ELSE ApplySkip(S.skip, S.sort, SomeProj(op.cols), S.dedup, S.a, S.b)
      [] op.o = "sel" ->
            IF HasSlice(S) \/ IsCompound(S) THEN Bind(FinishApply(op, S), LAMBDA x : PlainSel(x))
            ELSE Bind(FinishApply(op, S.skip), LAMBDA k :
                    IF k = S.skip THEN S ELSE ApplySkip(k, S.sort, S.proj, S.dedup, S.a, S.b))
      [] op.o = "slice" ->
            Bind(SliceThen(Slice(S.a, S.b), op), LAMBDA m :
                    ApplySkip(S.skip, S.sort, S.proj, S.dedup, m.a, m.b))
      [] op.o = "sort" ->
            IF HasSlice(S) THEN ApplySkip(S, op.terms, NoProj, FALSE, 0, -1)
            ELSE LET merged == SortThen(Sort(S.sort), op).terms IN
                 \* (fix of finding F22) the ORDER BY of a UNION can only name its result columns:
                 \* sort expressions are evaluated one level up, over the compound select as a sub-query
                 IF FixF22 /\ IsCompound(S) /\ \E i \in DOMAIN merged : merged[i].e.x # "ref"
                 THEN Bind(ApplySkip(S.skip, <<>>, S.proj, S.dedup, S.a, S.b), LAMBDA inner :
                         ApplySkip(inner, merged, NoProj, FALSE, 0, -1))
                 ELSE ApplySkip(S.skip, merged, S.proj, S.dedup, S.a, S.b)
      [] op.o = "pjoin" ->
            \* sql.Engine.append_binary as coded: with a trivially true predicate the operand that is a join
            \* identity is ignored (the lhs is asked first) and the other one KEPT.
            \* (fix of finding F24) a kept operand of another engine is handed back as it is;
            \* (fix of finding F30) when the IGNORED operand belongs to another engine it is not conformed
            \* either: the kept operand (conformed) is the result
            LET l == IF op.lhs THEN op.fixed ELSE S
                r == IF op.lhs THEN S ELSE op.fixed
                some == AsTrivial(op.p) = "T" /\ (JoinIdentity(l) \/ JoinIdentity(r))
                kept == IF JoinIdentity(l) THEN r ELSE l
                dropped == IF JoinIdentity(l) THEN l ELSE r
            IN
            IF FixF24 /\ some /\ Eng(kept) # Eng(S) THEN kept
            ELSE IF FixF30 /\ some /\ Eng(dropped) # Eng(S) THEN Conform(kept)
            ELSE Bind(Conform(op.fixed), LAMBDA f : IF op.lhs THEN SqlAppendBinary(JoinOp(op.p, op.common), f, S)
                                                   ELSE SqlAppendBinary(JoinOp(op.p, op.common), S, f))
      [] op.o = "id" -> S

\* _append_binary_to_select
SqlAppendBinary(bop, L, R) ==
    IF (HasSort(L) /\ ~HasSlice(L)) \/ (HasSort(R) /\ ~HasSlice(R)) THEN Err("OrderLoss")
    ELSE IF bop.o = "chain"
    THEN Bind(IF HasSlice(L) THEN PlainSel(L) ELSE L, LAMBDA l2 :
         Bind(IF HasSlice(R) THEN PlainSel(R) ELSE R, LAMBDA r2 :
            PlainSel(Bin(ChainOp, l2, r2))))
    ELSE LET sl0 == StripG(L, TRUE)
             sr0 == StripG(R, TRUE)
             \* fix of finding F4: a stripped operand exposes the columns its
             \* projection had hidden; if one of them is also a column of the
             \* other operand, both operands stay sub-queries
             collide == \/ ((Cols(sl0.t) \ Cols(L)) \cap Cols(sr0.t)) # {}
                        \/ ((Cols(sr0.t) \ Cols(R)) \cap Cols(sl0.t)) # {}
             sl == IF collide THEN [t |-> L, np |-> FALSE] ELSE sl0
             sr == IF collide THEN [t |-> R, np |-> FALSE] ELSE sr0
             proj == IF sl.np \/ sr.np THEN SomeProj(Cols(L) \cup Cols(R)) ELSE NoProj
         IN Bind(JoinFinish(bop, sl.t, sr.t), LAMBDA x : ApplySkip(x, <<>>, proj, FALSE, 0, -1))

(* ---------------- Engine.append_unary ---------------- *)
AppendUnary(op, t) ==
    IF KindOf(Eng(t)) = "sql" THEN Bind(Conform(t), LAMBDA s : SqlAppendUnary(op, s))
    ELSE FinishApplyX(op, t)

(* ---------------- Engine.transfer ---------------- *)
TransferTo(t, dest) ==
    LET s == TransferSimplify(t, dest)
        t1 == IF s.some THEN s.t ELSE t
    IN IF Eng(t1) = dest
       THEN (IF KindOf(dest) = "sql" THEN Conform(t1) ELSE t1)
       ELSE Bind(IF KindOf(Eng(t1)) = "sql" THEN Conform(t1) ELSE t1, LAMBDA c :
                IF KindOf(dest) = "sql" THEN PlainSel(Xfer(dest, c)) ELSE Xfer(dest, c))

(* ---------------- iteration.Engine.backtrack_unary ---------------- *)
\* TRUE: the code after the fix of finding F17 (a companion configuration
\* overrides it with FALSE and re-derives the counterexample)
\* [err] | [t |-> tree, done |-> BOOLEAN]
Backtrack(op, t, pref) ==
    IF KindOf(Eng(t)) = "sql" THEN [t |-> t, done |-> FALSE]      \* base-class implementation
    ELSE IF Locked(t) THEN [t |-> t, done |-> FALSE]
    ELSE CASE t.k = "un" ->
                LET k == CommuteX(op, t) IN
                IF k.first.o = "none" THEN [t |-> t, done |-> k.done]
                ELSE LET up == Backtrack(k.first, t.t, pref) IN
                     IF IsErr(up) THEN up
                     ELSE LET \* (fix of finding F18) the commuted version of the current operation also
                              \* replaces it when the moved operation was absorbed upstream as a no-op
                              \* (done, tree unchanged): the pinned-commit code kept the current operation
                              replace == up.t # t.t \/ (FixF18 /\ up.done /\ k.second # t.op)
                              res == IF replace THEN FinishApplyX(k.second, up.t) ELSE t IN
                          IF IsErr(res) THEN res ELSE [t |-> res, done |-> up.done /\ k.done]
           [] t.k = "bin" -> [t |-> t, done |-> FALSE]
           [] t.k = "xfer" ->
                IF Eng(t.t) = pref
                \* (fix of finding F28) the application may hand back a relation of ANOTHER engine (a join
                \* with a join-identity relation returns the other operand): when that engine is the
                \* transfer's own destination nothing is left to transfer
                THEN Bind(ApplyUnary(op, t.t, DefaultOpts),
                          LAMBDA x : [t |-> IF FixF28 /\ Eng(x) = t.dest THEN x ELSE Xfer(t.dest, x), done |-> TRUE])
                ELSE Bind(Backtrack(op, t.t, pref), LAMBDA up :
                        \* (fix of finding F17) nothing inserted upstream: the tree ITSELF is returned; the
                        \* pinned-commit code rebuilt the transfer (transfer.reapply), which for a transfer
                        \* holding a payload (field p, see RA_Proc) is a different relation
                        [t |-> IF FixF17 /\ up.t = t.t THEN t ELSE Xfer(t.dest, up.t), done |-> up.done])

(* ---------------- UnaryOperation.apply ---------------- *)
ApplyUnary(op, t, opts) ==
    LET b == BeginApply(op, t, opts.pref) IN
    IF IsErr(b) THEN b
    ELSE IF b.pref # Eng(t)
    THEN LET bt == IF opts.backtrack THEN Backtrack(b.op, t, b.pref) ELSE [t |-> t, done |-> FALSE] IN
         IF IsErr(bt) THEN bt
         ELSE IF bt.done THEN bt.t
         ELSE IF opts.transfer THEN Bind(TransferTo(bt.t, b.pref), LAMBDA x : AppendUnary(b.op, x))
         ELSE IF opts.require THEN Err("EngineError")
         ELSE AppendUnary(b.op, bt.t)
    ELSE AppendUnary(b.op, t)

(* ---------------- Engine.materialize ---------------- *)
Materialize(t, name) ==
    IF KindOf(Eng(t)) = "sql"
    THEN Bind(Conform(t), LAMBDA c :
            IF HasSort(c) /\ ~HasSlice(c) THEN Err("OrderLoss")
            ELSE IF MaterializeSimplify(c) THEN c ELSE PlainSel(Mat(name, c)))
    ELSE IF MaterializeSimplify(t) THEN t ELSE Mat(name, t)

(* ---------------- Relation.join ---------------- *)
JoinRel(l, r, p, backtrack, transfer) ==
    ApplyUnary(PJoin(r, p), l, Opts("none", backtrack, transfer, FALSE))
\* Join(p).partial(l, is_lhs=True).apply(r, ...): same join, but r is the target
\* that is backtracked through and l is held fixed
JoinRelL(l, r, p, backtrack, transfer) ==
    ApplyUnary(PJoinL(l, p), r, Opts("none", backtrack, transfer, FALSE))

(***************************************************************************)
(* C17: coherence of Select markers.                                       *)
(***************************************************************************)
RECURSIVE MarkerCoherent(_)
MarkerCoherent(t) ==
    CASE t.k = "leaf" -> TRUE
      [] t.k = "un"   -> MarkerCoherent(t.t)
      [] t.k = "bin"  -> MarkerCoherent(t.l) /\ MarkerCoherent(t.r)
      [] t.k \in {"xfer", "mat"} -> MarkerCoherent(t.t)
      [] t.k = "sel"  ->
            /\ MarkerCoherent(t.skip)
            /\ LET d == ApplySkip(t.skip, t.sort, t.proj, t.dedup, t.a, t.b) IN
               ~IsErr(d) /\ d.t = t.t


(***************************************************************************)
(* C17 read to the letter: the nodes between a SELECT marker and its skip  *)
(* target are exactly the recorded operations (a do-nothing one may be     *)
(* absent).  ApplySkip builds the target with _finish_apply, whose         *)
(* simplification can reach INTO the skip target: a recorded projection    *)
(* that does not keep the column of a Calculation at the top of the skip   *)
(* target elides that Calculation from the target chain (open finding F15; *)
(* harmless for the SQL, which is generated from the slots and skip_to).   *)
(***************************************************************************)
RECURSIVE NaiveFold(_, _)
NaiveFold(ops, t) == IF ops = <<>> THEN t
                     ELSE NaiveFold(Tail(ops), IF IsNoOp(Head(ops), Cols(t)) THEN t ELSE Un(Head(ops), t))
StrictTarget(s) == NaiveFold(SelOps(s), s.skip)
KF15(s) == s.proj.some /\ s.skip.k = "un" /\ s.skip.op.o = "calc" /\ s.skip.op.tag \notin s.proj.cols
             /\ ~HasSort(s)
RECURSIVE StrictCoherent(_, _)
StrictCoherent(t, excludeKF) ==
    CASE t.k = "leaf" -> TRUE
      [] t.k = "un"   -> StrictCoherent(t.t, excludeKF)
      [] t.k = "bin"  -> StrictCoherent(t.l, excludeKF) /\ StrictCoherent(t.r, excludeKF)
      [] t.k \in {"xfer", "mat"} -> StrictCoherent(t.t, excludeKF)
      [] t.k = "sel"  -> /\ StrictCoherent(t.skip, excludeKF)
                         /\ (excludeKF /\ KF15(t)) \/ t.t = StrictTarget(t)
=============================================================================
