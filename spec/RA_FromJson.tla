----------------------------- MODULE RA_FromJson -----------------------------
(***************************************************************************)
(* Normalisation of values read back with the Json module (Binding B):     *)
(* JSON arrays arrive as sequences; the fields that are SETS in the        *)
(* specification (cols, common, proj.cols) are converted here, in exactly  *)
(* one place.                                                              *)
(***************************************************************************)
EXTENDS RA_Engine

FromJOp(o) ==
    CASE o.o = "proj" -> Proj(SeqSet(o.cols))
      [] OTHER -> o

FromJBop(o) ==
    CASE o.o = "join" -> JoinOp(o.p, SeqSet(o.common))
      [] OTHER -> [o |-> o.o]

\* does the projected REAL tree contain a join node whose common columns were never resolved?
\* (such a node can only come from a defect; it makes the tree ill-formed)
RECURSIVE UnresJ(_)
UnresJ(t) ==
    CASE t.k = "bin"  -> (t.op.o = "join" /\ Has(t.op, "unres") /\ t.op.unres) \/ UnresJ(t.l) \/ UnresJ(t.r)
      [] t.k = "un"   -> UnresJ(t.t)
      [] t.k \in {"xfer", "mat"} -> UnresJ(t.t)
      [] t.k = "sel"  -> UnresJ(t.skip) \/ UnresJ(t.t)
      [] OTHER -> FALSE

RECURSIVE FromJTree(_)
FromJTree(t) ==
    CASE t.k = "leaf" ->
            IF Has(t, "cols") THEN Leaf(t.id, t.eng, SeqSet(t.cols), t.min, t.max)
            ELSE [k |-> "leaf", id |-> t.id]
      [] t.k = "un"   -> Un(FromJOp(t.op), FromJTree(t.t))
      [] t.k = "bin"  -> Bin(FromJBop(t.op), FromJTree(t.l), FromJTree(t.r))
      [] t.k = "xfer" -> Xfer(t.dest, FromJTree(t.t))
      [] t.k = "mat"  -> Mat(t.name, FromJTree(t.t))
      [] t.k = "sel"  -> [k |-> "sel", sort |-> t.sort,
                          proj |-> [some |-> t.proj.some, cols |-> SeqSet(t.proj.cols)],
                          dedup |-> t.dedup, a |-> t.a, b |-> t.b,
                          skip |-> FromJTree(t.skip), t |-> FromJTree(t.t)]
=============================================================================
