----------------------------- MODULE RA_FromJson -----------------------------
(***************************************************************************)
(* Normalisation of values read back with the Json module (Binding B):     *)
(* JSON arrays arrive as sequences; the fields that are SETS in the        *)
(* specification (cols, common, proj.cols) are converted here, in exactly  *)
(* one place.                                                              *)
(***************************************************************************)
EXTENDS RA_Engine

FromJOp(o) ==
    CASE o.o = "proj" -> Proj(SeqSet(o.cols))
      [] OTHER -> o

FromJBop(o) ==
    CASE o.o = "join" -> JoinOp(o.p, SeqSet(o.common))
      [] OTHER -> [o |-> o.o]

RECURSIVE FromJTree(_)
FromJTree(t) ==
    CASE t.k = "leaf" ->
            IF Has(t, "cols") THEN Leaf(t.id, t.eng, SeqSet(t.cols), t.min, t.max)
            ELSE [k |-> "leaf", id |-> t.id]
      [] t.k = "un"   -> Un(FromJOp(t.op), FromJTree(t.t))
      [] t.k = "bin"  -> Bin(FromJBop(t.op), FromJTree(t.l), FromJTree(t.r))
      [] t.k = "xfer" -> Xfer(t.dest, FromJTree(t.t))
      [] t.k = "mat"  -> Mat(t.name, FromJTree(t.t))
      [] t.k = "sel"  -> [k |-> "sel", sort |-> t.sort,
                          proj |-> [some |-> t.proj.some, cols |-> SeqSet(t.proj.cols)],
                          dedup |-> t.dedup, a |-> t.a, b |-> t.b,
                          skip |-> FromJTree(t.skip), t |-> FromJTree(t.t)]
=============================================================================
