------------------------------ MODULE RA_SqlSem ------------------------------
(***************************************************************************)
(* What a database is ALLOWED to return for a conformed SQL tree.          *)
(* Den(t, env) reads a tree with list semantics; a SQL database only        *)
(* guarantees a bag, and an order only at a level that carries ORDER BY.   *)
(*   DetTree(t, env)  the bag of rows is determined (independent of the    *)
(*                    physical order of unordered scans): every slice sits *)
(*                    at a level whose sort totally orders the rows it is  *)
(*                    applied to, or its window is trivial on this data    *)
(*   OrdTree(t, env)  additionally the outermost level carries such a sort *)
(*                    so the returned LIST is determined                   *)
(* Properties C02 / C11 demand bag / list equality exactly when these hold.*)
(***************************************************************************)
EXTENDS RA_Engine

TotalOn(terms, rows) ==
    \A i, j \in DOMAIN rows :
        rows[i] # rows[j] => Before(rows[i], rows[j], terms) \/ Before(rows[j], rows[i], terms)

TrivialWindow(a, b, n) == (a = 0 /\ (b = -1 \/ b >= n)) \/ (b # -1 /\ b <= a) \/ a >= n

SortColsOf(terms) == UNION {ReqE(terms[i].e) : i \in DOMAIN terms}

\* the order in which a select's rows reach its slice is determined
SelOrdered(s, env) ==
    LET rows0 == Den(s.skip, env)
        visible == IF s.proj.some THEN s.proj.cols ELSE Cols(s.skip)
    IN /\ HasSort(s)
       /\ IF SortColsOf(s.sort) \subseteq visible
          THEN TotalOn(s.sort, ApplyOp(Proj(visible), rows0))
          ELSE ~s.dedup /\ TotalOn(s.sort, rows0)

RECURSIVE DetTree(_, _)
DetTree(t, env) ==
    CASE t.k = "leaf" -> TRUE
      [] t.k = "un" ->
            /\ DetTree(t.t, env)
            /\ t.op.o = "slice" =>
                  \/ TrivialWindow(t.op.a, t.op.b, Len(Den(t.t, env)))
                  \/ (t.t.k = "un" /\ t.t.op.o = "sort" /\ TotalOn(t.t.op.terms, Den(t.t.t, env)))
      [] t.k = "bin" -> DetTree(t.l, env) /\ DetTree(t.r, env)
      [] t.k \in {"xfer", "mat"} -> DetTree(t.t, env)
      [] t.k = "sel" ->
            /\ DetTree(t.skip, env)
            /\ HasSlice(t) =>
                  \/ TrivialWindow(t.a, t.b,
                                   Len(ApplyOps(SelOps([t EXCEPT !.a = 0, !.b = -1]), Den(t.skip, env))))
                  \/ SelOrdered(t, env)

OrdTree(t, env) == t.k = "sel" /\ DetTree(t, env) /\ SelOrdered(t, env)

(***************************************************************************)
(* Engine-aware generalisation for multi-engine trees: iteration engines   *)
(* preserve list order, a SQL engine guarantees an order only through an   *)
(* outermost total sort (which the transfer hook then fetches in order).   *)
(*   ListDet(t, env)  every execution yields exactly the list Den(t, env)  *)
(*   BagDet(t, env)   every execution yields the bag of Den(t, env)        *)
(***************************************************************************)
RECURSIVE ListDet(_, _)
RECURSIVE BagDet(_, _)
ListDet(t, env) ==
    CASE t.k = "leaf" -> KindOf(t.eng) = "iter"
      [] t.k = "un" ->
            IF KindOf(Eng(t)) = "iter"
            THEN \/ ListDet(t.t, env)
                 \/ (t.op.o = "sort" /\ BagDet(t.t, env) /\ TotalOn(t.op.terms, Den(t.t, env)))
            ELSE FALSE
      [] t.k = "bin" -> KindOf(Eng(t)) = "iter" /\ ListDet(t.l, env) /\ ListDet(t.r, env)
      [] t.k \in {"xfer", "mat"} -> ListDet(t.t, env)
      [] t.k = "sel" -> BagDet(t, env) /\ SelOrdered(t, env)
BagDet(t, env) ==
    CASE t.k = "leaf" -> TRUE
      [] t.k = "un" ->
            /\ BagDet(t.t, env)
            /\ t.op.o = "slice" =>
                  \/ ListDet(t.t, env)
                  \/ TrivialWindow(t.op.a, t.op.b, Len(Den(t.t, env)))
            \* a user-defined order-dependent row filter picks rows by position as well
            /\ IsCust(t.op, {"everyother"}) => ListDet(t.t, env)
      [] t.k = "bin" -> BagDet(t.l, env) /\ BagDet(t.r, env)
      [] t.k \in {"xfer", "mat"} -> BagDet(t.t, env)
      [] t.k = "sel" ->
            /\ BagDet(t.skip, env)
            /\ HasSlice(t) =>
                  \/ TrivialWindow(t.a, t.b,
                                   Len(ApplyOps(SelOps([t EXCEPT !.a = 0, !.b = -1]), Den(t.skip, env))))
                  \/ SelOrdered(t, env)

\* the other legal physical order: only SQL tables have one (the order of an
\* iteration leaf's payload is data)
SqlLeafIds(t) == {n.id : n \in {m \in Nodes(t) : m.k = "leaf" /\ KindOf(m.eng) = "sql"}}
RevEnvFor(t, env) ==
    [id \in DOMAIN env |-> IF id \in SqlLeafIds(t)
                            THEN [i \in DOMAIN env[id] |-> env[id][Len(env[id]) + 1 - i]]
                            ELSE env[id]]

RevEnv(env) == [id \in DOMAIN env |-> [i \in DOMAIN env[id] |-> env[id][Len(env[id]) + 1 - i]]]
=============================================================================
