------------------------------ MODULE RA_SqlSem ------------------------------
(***************************************************************************)
(* What a database is ALLOWED to return for a conformed SQL tree.          *)
(* Den(t, env) reads a tree with list semantics; a SQL database only        *)
(* guarantees a bag, and an order only at a level that carries ORDER BY.   *)
(*   DetTree(t, env)  the bag of rows is determined (independent of the    *)
(*                    physical order of unordered scans): every slice sits *)
(*                    at a level whose sort totally orders the rows it is  *)
(*                    applied to, or its window is trivial on this data    *)
(*   OrdTree(t, env)  additionally the outermost level carries such a sort *)
(*                    so the returned LIST is determined                   *)
(* Properties C02 / C11 demand bag / list equality exactly when these hold.*)
(***************************************************************************)
EXTENDS RA_Engine

TotalOn(terms, rows) ==
    \A i, j \in DOMAIN rows :
        rows[i] # rows[j] => Before(rows[i], rows[j], terms) \/ Before(rows[j], rows[i], terms)

TrivialWindow(a, b, n) == (a = 0 /\ (b = -1 \/ b >= n)) \/ (b # -1 /\ b <= a) \/ a >= n

SortColsOf(terms) == UNION {ReqE(terms[i].e) : i \in DOMAIN terms}

\* the order in which a select's rows reach its slice is determined
SelOrdered(s, env) ==
    LET rows0 == Den(s.skip, env)
        visible == IF s.proj.some THEN s.proj.cols ELSE Cols(s.skip)
    IN /\ HasSort(s)
       /\ IF SortColsOf(s.sort) \subseteq visible
          THEN TotalOn(s.sort, ApplyOp(Proj(visible), rows0))
          ELSE ~s.dedup /\ TotalOn(s.sort, rows0)

RECURSIVE DetTree(_, _)
DetTree(t, env) ==
    CASE t.k = "leaf" -> TRUE
      [] t.k = "un" ->
            /\ DetTree(t.t, env)
            /\ t.op.o = "slice" =>
                  \/ TrivialWindow(t.op.a, t.op.b, Len(Den(t.t, env)))
                  \/ (t.t.k = "un" /\ t.t.op.o = "sort" /\ TotalOn(t.t.op.terms, Den(t.t.t, env)))
      [] t.k = "bin" -> DetTree(t.l, env) /\ DetTree(t.r, env)
      [] t.k \in {"xfer", "mat"} -> DetTree(t.t, env)
      [] t.k = "sel" ->
            /\ DetTree(t.skip, env)
            /\ HasSlice(t) =>
                  \/ TrivialWindow(t.a, t.b,
                                   Len(ApplyOps(SelOps([t EXCEPT !.a = 0, !.b = -1]), Den(t.skip, env))))
                  \/ SelOrdered(t, env)

OrdTree(t, env) == t.k = "sel" /\ DetTree(t, env) /\ SelOrdered(t, env)

RevEnv(env) == [id \in DOMAIN env |-> [i \in DOMAIN env[id] |-> env[id][Len(env[id]) + 1 - i]]]
=============================================================================
