SPECIFICATION Spec
CONSTANTS
  Contents <- C1
  BoundModes <- BM1
  MenuKind = "ss"
  MaxDepth = 4
  StartChain = FALSE
  EmitMin = 0
  Emit = TRUE
INVARIANT BagMatches
INVARIANT ListMatches
INVARIANT TargetMatches
INVARIANT Conformed
INVARIANT CompileTotal
INVARIANT CompileBag
INVARIANT CompileList
INVARIANT StrictlyCoherent
INVARIANT RawConformKeeps
INVARIANT WF
INVARIANT MetaTruthful
INVARIANT DiagSound
INVARIANT OrderLossRefused
INVARIANT EmitState
PROPERTY NoOpIdentity
CHECK_DEADLOCK FALSE
