SPECIFICATION Spec
CONSTANTS
  Contents <- C1
  Sources <- Both
  BaseDepth = 2
  FinalOps = "few"
  Starts <- NoStart
  Emit = FALSE
  FixF21 <- FixOff
INVARIANT NoPlacementColumnError
CHECK_DEADLOCK FALSE
