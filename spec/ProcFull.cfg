SPECIFICATION Spec
CONSTANTS
  Contents <- C2
  Sources <- Both
  BuildDepth = 4
  EvalDepth = 2
  Emit = TRUE
INVARIANT EvalOnce
INVARIANT PayTruthful
INVARIANT ProcessedAll
INVARIANT ContentKept
INVARIANT ProcessRefines
INVARIANT WrapSound
INVARIANT EmitState
PROPERTY WriteOnce
CHECK_DEADLOCK FALSE
