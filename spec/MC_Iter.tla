------------------------------- MODULE MC_Iter -------------------------------
EXTENDS IterProgram
R(x, y) == [a |-> x, b |-> y]
Quick14 == { <<>>, <<R(0,0)>>, <<R(1,0)>>, <<R(0,0), R(0,0)>>, <<R(0,0), R(1,0)>>, <<R(1,0), R(0,0)>>,
             <<R(0,1), R(1,0)>>, <<R(1,0), R(0,1)>>, <<R(1,1), R(0,0), R(1,1)>>, <<R(0,0), R(0,1), R(1,0)>>,
             <<R(1,0), R(0,1), R(0,0)>>, <<R(0,1), R(0,1), R(0,0)>>, <<R(1,1), R(1,0), R(0,1)>>,
             <<R(1,0), R(1,0), R(1,0)>> }
RECURSIVE SeqsUpTo(_, _)
SeqsUpTo(S, n) == IF n = 0 THEN {<<>>}
                  ELSE LET prev == SeqsUpTo(S, n - 1) IN
                       prev \cup {Append(s, r) : s \in {q \in prev : Len(q) = n - 1}, r \in S}
All85 == SeqsUpTo({R(x, y) : x \in 0..1, y \in 0..1}, 3)
Small6 == { <<>>, <<R(1,0)>>, <<R(0,1), R(0,1)>>, <<R(1,0), R(0,1)>>, <<R(1,1), R(0,0), R(1,1)>>, <<R(1,0), R(0,1), R(0,0)>> }
\* zero-column leaves: n empty rows
ZeroRows == { <<>>, << <<>> >>, << <<>>, <<>> >> }
\* key column a, non-key column v determined by a (v = 1 - a)
AV(x) == [a |-> x, v |-> 1 - x]
AVRows == { <<>>, <<AV(0)>>, <<AV(1), AV(0)>>, <<AV(0), AV(0), AV(1)>>, <<AV(1), AV(0), AV(1)>> }
BM2 == {"exact", "unb"}
BM4 == {"exact", "loose", "zero", "unb"}
BM1 == {"exact"}
SwitchOn == TRUE
FixOff == FALSE
=============================================================================
