SPECIFICATION Spec
CONSTANTS
  Contents <- C1
  Sources <- Both
  BaseDepth = 2
  FinalOps = "few"
  Starts <- NoStart
  Emit = FALSE
  FixF18 <- FixOff
INVARIANT ContentKept
INVARIANT ColumnsKept
CHECK_DEADLOCK FALSE
