----------------------------- MODULE TraceProgram -----------------------------
(***************************************************************************)
(* Binding B for DEEP random programs (beyond the exhaustive bounds of     *)
(* IterProgram / SqlProgram): the harness generates a long random sequence *)
(* of unary operations (seeded), applies it through the real API in the    *)
(* iteration engine and in the SQL engine, executes both for real and      *)
(* records  [id, l1 (leaf rows), ops, iter (rows from the iteration        *)
(* engine), sqlf / sqlr (rows from SQLite, scan order off / on), tree      *)
(* (the real SQL tree, projected)].                                        *)
(* TLC computes the reference rows itself - ApplyOps of the recorded       *)
(* operation sequence, the naive semantics - and judges:                   *)
(*   iter    rows of the iteration engine = reference LIST                 *)
(*   sqlbag  whenever TLC's determinacy analysis of the REAL tree says the *)
(*           bag is determined: both SQLite answers = reference BAG        *)
(*   sqllist whenever the list is determined: both answers = reference    *)
(*   cols    every returned row has the columns of the naive application   *)
(***************************************************************************)
EXTENDS RA_FromJson, RA_SqlSem, Json, IOUtils

Trace == ndJsonDeserialize(IOEnv.TRACE_FILE)
VARIABLE l

RECURSIVE NaiveColsOf(_, _)
NaiveColsOf(ops, cols) == IF ops = <<>> THEN cols ELSE NaiveColsOf(Tail(ops), OpCols(Head(ops), cols))

Verdict(ev) ==
    LET ops == [i \in DOMAIN ev.ops |-> FromJOp(ev.ops[i])]
        ref == ApplyOps(ops, ev.l1)
        cols == NaiveColsOf(ops, SeqSet(ev.cols))
        t == FromJTree(ev.tree)
        env == [T1 |-> ev.l1]
        rev == RevEnvFor(t, env)
        bdet == WellFormed(t) /\ BagDet(t, env) /\ BagDet(t, rev)
        ldet == WellFormed(t) /\ ListDet(t, env) /\ ListDet(t, rev)
    IN IF ev.nosql      \* the SQL engine refused the program with the documented row-order error
       THEN [ iter |-> ev.iter = ref, sqlbag |-> TRUE, sqllist |-> TRUE,
              cols |-> \A i \in DOMAIN ev.iter : DOMAIN ev.iter[i] = cols, wf |-> TRUE, det |-> FALSE ]
       ELSE
       [ iter    |-> ev.iter = ref,
         sqlbag  |-> bdet => SameBag(ev.sqlf, ref) /\ SameBag(ev.sqlr, ref),
         sqllist |-> ldet => ev.sqlf = ref /\ ev.sqlr = ref,
         cols    |-> /\ \A i \in DOMAIN ev.iter : DOMAIN ev.iter[i] = cols
                     /\ \A i \in DOMAIN ev.sqlf : DOMAIN ev.sqlf[i] = cols,
         wf      |-> ~UnresJ(ev.tree) /\ WellFormed(t),
         det     |-> bdet ]

Init == l = 1
Next == /\ l <= Len(Trace)
        /\ LET v == Verdict(Trace[l]) IN
              /\ IF v.iter /\ v.sqlbag /\ v.sqllist /\ v.cols /\ v.wf THEN TRUE
                 ELSE PrintT(<<"TV", ToJson([id |-> Trace[l].id, v |-> v])>>)
              /\ IF v.det THEN PrintT(<<"TD", Trace[l].id>>) ELSE TRUE
        /\ l' = l + 1
        /\ (l' = Len(Trace) + 1 => PrintT(<<"TVDONE", Len(Trace)>>))
Spec == Init /\ [][Next]_l
=============================================================================
