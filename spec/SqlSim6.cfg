SPECIFICATION Spec
CONSTANTS
  Contents <- C5
  BoundModes <- BM1
  MenuKind = "general"
  MaxDepth = 6
  StartChain = FALSE
  EmitMin = 6
  Emit = TRUE
INVARIANT BagMatches
INVARIANT ListMatches
INVARIANT TargetMatches
INVARIANT Conformed
INVARIANT CompileTotal
INVARIANT CompileBag
INVARIANT CompileList
INVARIANT StrictlyCoherent
INVARIANT RawConformKeeps
INVARIANT WF
INVARIANT MetaTruthful
INVARIANT DiagSound
INVARIANT OrderLossRefused
INVARIANT EmitState
PROPERTY NoOpIdentity
CHECK_DEADLOCK FALSE
