SPECIFICATION Spec
CONSTANTS
  Contents <- C1
  Sources <- Both
  BaseDepth = 1
  FinalOps = "few"
  Starts <- XSelStart
  Emit = FALSE
  FixF20 <- FixOff
INVARIANT ContentKept
CHECK_DEADLOCK FALSE
