SPECIFICATION Spec
CONSTANTS
  Contents <- C2
  Sources <- Both
  BuildDepth = 3
  EvalDepth = 3
  Emit = TRUE
INVARIANT EvalOnce
INVARIANT PayTruthful
INVARIANT ProcessedAll
INVARIANT ContentKept
INVARIANT ProcessRefines
INVARIANT EmitState
PROPERTY WriteOnce
CHECK_DEADLOCK FALSE
