------------------------------ MODULE TraceTree ------------------------------
(***************************************************************************)
(* Binding B for trees: every relation tree RECORDED FROM THE REAL CODE    *)
(* (projected to the abstract syntax) is judged by TLC:                    *)
(*   wf    WellFormed(tree)                                     (C14)      *)
(*   den   the tree, read structurally with the reference semantics,      *)
(*         denotes the expected rows (list, or bag when ev.bag)  (C01/C02/ *)
(*         C03/C05/C07 at the level of tree structure)                     *)
(*   meta  columns / bounds / flags of every node truthful       (C06)     *)
(*   coh   Select markers coherent, conform is the identity      (C17)     *)
(* Event: [id, tree, env, rows, bag, checks]  (checks: which clauses)      *)
(***************************************************************************)
EXTENDS RA_FromJson, RA_SqlSem, Json, IOUtils

Trace == ndJsonDeserialize(IOEnv.TRACE_FILE)
VARIABLE l

NodeOK(n, env) ==
    LET d == Den(n, env) IN
    /\ MinR(n) <= Len(d)
    /\ MaxR(n) = -1 \/ Len(d) <= MaxR(n)
    /\ \A i \in DOMAIN d : DOMAIN d[i] = Cols(n)
    /\ JoinIdentity(n) => d = << <<>> >>
    /\ MaxR(n) = 0 => d = <<>>

Verdict(ev) ==
    LET t == FromJTree(ev.tree)
        want(c) == \E i \in DOMAIN ev.checks : ev.checks[i] = c
        wfOK == ~UnresJ(ev.tree) /\ WellFormed(t)
    IN \* an ill-formed tree cannot be evaluated (its operations may refer to
       \* columns that do not exist): it is rejected on clause wf alone
       IF ~wfOK THEN [wf |-> FALSE, den |-> TRUE, denbag |-> TRUE, denlist |-> TRUE, meta |-> TRUE, coh |-> TRUE]
       ELSE
       [ wf   |-> TRUE,
         \* "den": exact list equality (order-preserving engines only);
         \* "denbag" / "denlist": guarded by TLC's OWN determinacy analysis of the
         \* real tree (a database may return any bag / list otherwise), for both
         \* physical orders of the leaf tables
         den  |-> want("den") => Den(t, ev.env) = ev.rows,
         denbag |-> want("denbag") =>
                        ((BagDet(t, ev.env) /\ BagDet(t, RevEnvFor(t, ev.env)))
                            => SameBag(Den(t, ev.env), ev.rows) /\ SameBag(Den(t, RevEnvFor(t, ev.env)), ev.rows)),
         denlist |-> want("denlist") =>
                        ((ListDet(t, ev.env) /\ ListDet(t, RevEnvFor(t, ev.env)))
                            => Den(t, ev.env) = ev.rows),
         meta |-> want("meta") => \A n \in Nodes(t) : NodeOK(n, ev.env),
         coh  |-> want("coh") => /\ MarkerCoherent(t) /\ (KindOf(Eng(t)) = "sql" => Conform(t) = t)
                                 /\ StrictCoherent(t, TRUE) ]      \* to the letter, open finding F15 excluded

\* the event exhibits open finding F15 (and nothing else is wrong with its markers)
IsKF15(ev) ==
    LET t == FromJTree(ev.tree) IN
    /\ \E i \in DOMAIN ev.checks : ev.checks[i] = "coh"
    /\ WellFormed(t) /\ StrictCoherent(t, TRUE) /\ ~StrictCoherent(t, FALSE)

Init == l = 1
Next == /\ l <= Len(Trace)
        /\ LET v == Verdict(Trace[l]) IN
              IF v.wf /\ v.den /\ v.denbag /\ v.denlist /\ v.meta /\ v.coh THEN TRUE
              ELSE PrintT(<<"TV", ToJson([id |-> Trace[l].id, v |-> v])>>)
        /\ (IsKF15(Trace[l]) => PrintT(<<"TK", ToJson([id |-> Trace[l].id, kf |-> "F15"])>>))
        /\ l' = l + 1
        /\ (l' = Len(Trace) + 1 => PrintT(<<"TVDONE", Len(Trace)>>))
Spec == Init /\ [][Next]_l
=============================================================================
