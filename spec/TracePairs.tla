------------------------------ MODULE TracePairs ------------------------------
(***************************************************************************)
(* Binding B for C04 / C05: the answers of the REAL commute() methods and  *)
(* the REAL trees produced by applying two operations in sequence are      *)
(* judged by TLC with the laws of RA_PairLaws over every target.           *)
(* Event: [id, kind ("commute"|"merge"), mode, cur, new,                   *)
(*         first, second, done   (commute; first = [o|->"none"] for None)  *)
(*         res | err             (merge: projected real tree / exc. class)]*)
(* Output: TV <json> for a violated law, TK <json> for an event that       *)
(* matches an open known finding (matcher AND failure signature), TVDONE.  *)
(***************************************************************************)
EXTENDS RA_PairLaws, RA_FromJson, Json, IOUtils

Trace == ndJsonDeserialize(IOEnv.TRACE_FILE)
VARIABLE l

TCOf(mode) == IF mode = "slices" THEN {"a"} ELSE {"a", "b"}
TargetsOf(mode) == IF mode = "slices" THEN CountTargets(6)
                   ELSE IF mode = "general2" THEN SeqsUpTo(RowsAB(1), 3) \cup SeqsUpTo(RowsAB(2), 2)
                   ELSE SeqsUpTo(RowsAB(1), 3)

\* operations incl. partial joins, which arrive in two shapes: as the model emitted them
\* (fixed, p, common, res, lhs) or as projected from a real PartialJoin (fixed, p, min, max, lhs)
FromJOpX(o) ==
    IF o.o = "pjoin"
    THEN IF Has(o, "min")
         THEN [o |-> "pjoin", fixed |-> FromJTree(o.fixed), p |-> o.p, common |-> SeqSet(o.min),
               res |-> (o.hasmax /\ SeqSet(o.max) = SeqSet(o.min)), lhs |-> o.lhs]
         ELSE [o |-> "pjoin", fixed |-> FromJTree(o.fixed), p |-> o.p, common |-> SeqSet(o.common), res |-> o.res, lhs |-> o.lhs]
    ELSE FromJOp(o)

Verdict(ev) ==
    LET cur == FromJOpX(ev.cur)
        new == FromJOpX(ev.new)
    IN IF ev.kind = "commute"
       THEN LET k == Commutator(FromJOpX(ev.first), FromJOpX(ev.second), ev.done)
                ok == CommuteLaw(new, cur, k, TCOf(ev.mode), TargetsOf(ev.mode))
            IN [ok |-> ok, kf |-> IF ~ok /\ KF_ProjPastDedup(new, cur) THEN "F2" ELSE "none"]
       ELSE IF ev.err # "none" THEN [ok |-> FALSE, kf |-> "none"]
       ELSE [ok |-> MergeLaw(new, cur, FromJTree(ev.res), TargetsOf(ev.mode)), kf |-> "none"]

Init == l = 1
Next == /\ l <= Len(Trace)
        /\ LET v == Verdict(Trace[l]) IN
              IF v.ok THEN TRUE
              ELSE IF v.kf # "none" THEN PrintT(<<"TK", ToJson([id |-> Trace[l].id, kf |-> v.kf])>>)
              ELSE PrintT(<<"TV", ToJson([id |-> Trace[l].id])>>)
        /\ l' = l + 1
        /\ (l' = Len(Trace) + 1 => PrintT(<<"TVDONE", Len(Trace)>>))
Spec == Init /\ [][Next]_l
=============================================================================
