SPECIFICATION Spec
CONSTANTS
  Threads <- T3
  EngineOf <- TwoEngines3
  Requests = 2
  UseUuid = TRUE
  Emit = TRUE
INVARIANT Unique
INVARIANT Prefixed
INVARIANT CounterBounded
INVARIANT EmitState
CHECK_DEADLOCK FALSE
