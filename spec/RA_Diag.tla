------------------------------- MODULE RA_Diag -------------------------------
(***************************************************************************)
(* Diagnostics.run as coded (DESIGN.md appendix A.10).                     *)
(*   Diag(t, env, useExec) = [doomed |-> BOOLEAN, msgs |-> number of       *)
(*   messages]; the executor, when used, answers truthfully                *)
(*   (Den(relation) # <<>>).  Leaves carry no messages of their own except *)
(*   doomed leaves built with make_doomed_relation (leafMsgs).             *)
(***************************************************************************)
EXTENDS RA_Tree

RECURSIVE Diag(_, _, _)
Diag(t, env, useExec) ==
    LET nonEmpty(r) == Den(r, env) # <<>> IN
    CASE t.k = "leaf" ->
            LET m == IF Has(t, "msgs") THEN t.msgs ELSE 0 IN
            IF MaxR(t) = 0 THEN [doomed |-> TRUE, msgs |-> Max2(m, 1)]
            ELSE IF useExec /\ ~nonEmpty(t) THEN [doomed |-> TRUE, msgs |-> Max2(m, 1)]
            ELSE [doomed |-> FALSE, msgs |-> m]
      [] t.k \in {"xfer", "mat", "sel"} -> Diag(t.t, env, useExec)
      [] t.k = "un" ->
            LET r == Diag(t.t, env, useExec) IN
            IF r.doomed THEN r
            ELSE IF t.op.o = "slice" /\ t.op.b # -1 /\ t.op.b - t.op.a = 0
                 THEN [doomed |-> TRUE, msgs |-> r.msgs + 1]
            ELSE IF t.op.o = "sel" /\ AsTrivial(t.op.p) = "F"
                 THEN [doomed |-> TRUE, msgs |-> r.msgs + 1]
            ELSE IF ~EmptyInv(t.op) /\ useExec /\ ~nonEmpty(t)
                 THEN [doomed |-> TRUE, msgs |-> r.msgs + 1]
            ELSE r
      [] t.k = "bin" ->
            LET l == Diag(t.l, env, useExec)
                r == Diag(t.r, env, useExec)
                m == l.msgs + r.msgs
            IN IF t.op.o = "chain" THEN [doomed |-> l.doomed /\ r.doomed, msgs |-> m]
               ELSE IF l.doomed \/ r.doomed THEN [doomed |-> TRUE, msgs |-> m]
               ELSE IF AsTrivial(t.op.p) = "F" THEN [doomed |-> TRUE, msgs |-> m + 1]
               ELSE IF useExec /\ ~nonEmpty(t) THEN [doomed |-> TRUE, msgs |-> m + 1]
               ELSE [doomed |-> FALSE, msgs |-> m]
=============================================================================
