SPECIFICATION Spec
CONSTANTS
  Contents <- C3
  BoundModes <- BM1
  MenuKind = "focus"
  MaxDepth = 3
  StartChain = FALSE
  EmitMin = 0
  Emit = FALSE
  FixF23 <- FixOff
INVARIANT CompileTotal
CHECK_DEADLOCK FALSE
