SPECIFICATION Spec
CONSTANTS
  MaxXfers = 2
  MaxMid = 1
  Sources <- BothSrc
  Emit = TRUE
INVARIANT WF
INVARIANT Content
INVARIANT RequireHonoured
INVARIANT EmitState
CHECK_DEADLOCK FALSE
