SPECIFICATION Spec
CONSTANTS
  MaxXfers = 2
  MaxMid = 1
  Emit = TRUE
INVARIANT WF
INVARIANT Content
INVARIANT EmitState
CHECK_DEADLOCK FALSE
