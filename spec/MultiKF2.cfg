SPECIFICATION Spec
CONSTANTS
  Contents <- C2
  Sources <- Both
  BaseDepth = 2
  FinalOps = "few"
  Starts <- NoStart
  Emit = FALSE
INVARIANT KF2Gone
CHECK_DEADLOCK FALSE
