------------------------------- MODULE RA_Tree -------------------------------
(***************************************************************************)
(* Relation trees and their static metadata, exactly as coded, plus the    *)
(* structural DENOTATION Den(t, env): what a tree means when read node by  *)
(* node with the reference semantics of RA_Ops (independent of how the     *)
(* tree was built).                                                        *)
(*                                                                         *)
(*  tree := [k|->"leaf", id, eng, cols, min, max]                          *)
(*        | [k|->"un",  op, t]                                             *)
(*        | [k|->"bin", op, l, r]    op := [o|->"chain"]                   *)
(*                                        | [o|->"join", p, common]        *)
(*        | [k|->"xfer", dest, t]                                          *)
(*        | [k|->"mat", name, t]                                           *)
(*        | [k|->"sel", sort, proj, dedup, a, b, skip, t]   (SQL Select)   *)
(*            sort: seq of terms; proj: [some, cols]; dedup: BOOLEAN;      *)
(*            a, b: the slice (0, -1 = none); skip: skip_to; t: target     *)
(*  env  := [leaf id |-> sequence of rows]                                 *)
(*  max = -1 means None (unbounded).  Engines are named by strings; the    *)
(*  engine "sql" is a sql.Engine, every other name an iteration.Engine.    *)
(***************************************************************************)
EXTENDS RA_Ops

Leaf(id, eng, cols, mn, mx) == [k |-> "leaf", id |-> id, eng |-> eng, cols |-> cols, min |-> mn, max |-> mx]
Un(op, t) == [k |-> "un", op |-> op, t |-> t]
Bin(op, l, r) == [k |-> "bin", op |-> op, l |-> l, r |-> r]
Xfer(dest, t) == [k |-> "xfer", dest |-> dest, t |-> t]
Mat(name, t) == [k |-> "mat", name |-> name, t |-> t]
ChainOp == [o |-> "chain"]
JoinOp(p, common) == [o |-> "join", p |-> p, common |-> common]
NoProj == [some |-> FALSE, cols |-> {}]
SomeProj(cols) == [some |-> TRUE, cols |-> cols]

KindOf(eng) == IF eng = "sql" THEN "sql" ELSE "iter"

RECURSIVE Cols(_)
Cols(t) ==
    CASE t.k = "leaf" -> t.cols
      [] t.k = "un"   -> OpCols(t.op, Cols(t.t))
      [] t.k = "bin"  -> IF t.op.o = "chain" THEN Cols(t.l) ELSE Cols(t.l) \cup Cols(t.r)
      [] t.k \in {"xfer", "mat", "sel"} -> Cols(t.t)

RECURSIVE Eng(_)
Eng(t) ==
    CASE t.k = "leaf" -> t.eng
      [] t.k = "un"   -> Eng(t.t)
      [] t.k = "bin"  -> Eng(t.l)
      [] t.k = "xfer" -> t.dest
      [] t.k \in {"mat", "sel"} -> Eng(t.t)

MulMax(x, y) == IF x = 0 \/ y = 0 THEN 0 ELSE IF x = -1 \/ y = -1 THEN -1 ELSE x * y
AddMax(x, y) == IF x = -1 \/ y = -1 THEN -1 ELSE x + y

RECURSIVE MinR(_)
RECURSIVE MaxR(_)
MinR(t) ==
    CASE t.k = "leaf" -> t.min
      [] t.k = "un"   -> OpMin(t.op, MinR(t.t), MaxR(t.t), Cols(t.t))
      [] t.k = "bin"  -> IF t.op.o = "chain" THEN MinR(t.l) + MinR(t.r) ELSE 0
      [] t.k \in {"xfer", "mat", "sel"} -> MinR(t.t)
MaxR(t) ==
    CASE t.k = "leaf" -> t.max
      [] t.k = "un"   -> OpMax(t.op, MinR(t.t), MaxR(t.t), Cols(t.t))
      [] t.k = "bin"  -> IF t.op.o = "chain" THEN AddMax(MaxR(t.l), MaxR(t.r))
                         ELSE MulMax(MaxR(t.l), MaxR(t.r))
      [] t.k \in {"xfer", "mat", "sel"} -> MaxR(t.t)

Locked(t) == t.k \in {"leaf", "mat"}
JoinIdentity(t) == Cols(t) = {} /\ MaxR(t) = 1 /\ MinR(t) = 1
Trivial(t) == JoinIdentity(t) \/ MaxR(t) = 0

HasSort(s) == s.sort # <<>>
HasSlice(s) == s.a # 0 \/ s.b # -1
IsCompound(s) == s.skip.k = "bin" /\ s.skip.op.o = "chain"

\* the operations a Select records, in application order
SelOps(s) ==
    (IF HasSort(s) THEN <<Sort(s.sort)>> ELSE <<>>)
      \o (IF s.proj.some THEN <<Proj(s.proj.cols)>> ELSE <<>>)
      \o (IF s.dedup THEN <<Dedup>> ELSE <<>>)
      \o (IF HasSlice(s) THEN <<Slice(s.a, s.b)>> ELSE <<>>)

(***************************************************************************)
(* Denotation                                                              *)
(***************************************************************************)
\* nested-loop join: lhs-major order; rows agree on `common`, the predicate
\* holds on the merged row.  Where both operands carry a column that is not a
\* common column the rhs value wins, as in the SQL engine's
\* {**lhs.columns_available, **rhs.columns_available}; well-formed trees have
\* no such column (see the collision guard in SqlAppendBinary).
RECURSIVE JoinRows(_, _, _, _)
JoinRows(l, r, common, p) ==
    IF l = <<>> THEN <<>>
    ELSE LET lr == Head(l)
             match == SelectSeq(r, LAMBDA rr : (\A c \in common : rr[c] = lr[c])
                                              /\ EvalP(p, MergeRows(rr, lr)))
         IN [i \in DOMAIN match |-> MergeRows(match[i], lr)] \o JoinRows(Tail(l), r, common, p)

RECURSIVE Den(_, _)
Den(t, env) ==
    CASE t.k = "leaf" -> env[t.id]
      [] t.k = "un"   -> ApplyOp(t.op, Den(t.t, env))
      [] t.k = "bin"  -> IF t.op.o = "chain" THEN Den(t.l, env) \o Den(t.r, env)
                         ELSE JoinRows(Den(t.l, env), Den(t.r, env), t.op.common, t.op.p)
      [] t.k \in {"xfer", "mat"} -> Den(t.t, env)
      [] t.k = "sel"  -> ApplyOps(SelOps(t), Den(t.skip, env))

\* denotation of a select read through its TARGET chain instead of its slots
RECURSIVE DenT(_, _)
DenT(t, env) ==
    CASE t.k = "leaf" -> env[t.id]
      [] t.k = "un"   -> ApplyOp(t.op, DenT(t.t, env))
      [] t.k = "bin"  -> IF t.op.o = "chain" THEN DenT(t.l, env) \o DenT(t.r, env)
                         ELSE JoinRows(DenT(t.l, env), DenT(t.r, env), t.op.common, t.op.p)
      [] t.k \in {"xfer", "mat", "sel"} -> DenT(t.t, env)

(***************************************************************************)
(* Structural well-formedness (property C14)                               *)
(***************************************************************************)
NonKeyCols == {"v", "w"}                     \* every other column tag is a key column
IsKey(c) == c \notin NonKeyCols

RECURSIVE WellFormed(_)
WellFormed(t) ==
    CASE t.k = "leaf" -> TRUE
      [] t.k = "un" ->
            /\ WellFormed(t.t)
            /\ t.op.o \notin {"id", "pjoin", "none"}
            /\ SupOp(t.op, KindOf(Eng(t.t)))
            /\ WellFormedOn(t.op, Cols(t.t)) \/ (t.op.o = "calc" /\ ReqE(t.op.e) \subseteq Cols(t.t))
      [] t.k = "bin" ->
            /\ WellFormed(t.l) /\ WellFormed(t.r)
            /\ Eng(t.l) = Eng(t.r)
            /\ t.op.o \in {"chain", "join"}
            /\ t.op.o = "chain" => Cols(t.l) = Cols(t.r)
            /\ t.op.o = "join" =>
                  /\ t.op.common \subseteq (Cols(t.l) \cap Cols(t.r))
                  /\ \A c \in t.op.common : IsKey(c)
                  /\ ReqP(t.op.p) \subseteq (Cols(t.l) \cup Cols(t.r))
                  /\ SupP(t.op.p, KindOf(Eng(t.l)))
      [] t.k = "xfer" -> WellFormed(t.t) /\ t.dest # Eng(t.t)
      [] t.k = "mat"  -> WellFormed(t.t)
      [] t.k = "sel"  -> WellFormed(t.t) /\ WellFormed(t.skip) /\ Eng(t.skip) = "sql"

\* set of sub-trees
RECURSIVE Nodes(_)
Nodes(t) ==
    {t} \cup
    CASE t.k = "leaf" -> {}
      [] t.k = "un"   -> Nodes(t.t)
      [] t.k = "bin"  -> Nodes(t.l) \cup Nodes(t.r)
      [] t.k \in {"xfer", "mat"} -> Nodes(t.t)
      [] t.k = "sel"  -> Nodes(t.t) \cup Nodes(t.skip)

=============================================================================
