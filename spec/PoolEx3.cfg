SPECIFICATION Spec
CONSTANTS
  MaxLen = 3
  MaxPool = 7
  Emit = TRUE
INVARIANT ContentKept
INVARIANT EmitState
PROPERTY Persistent
CHECK_DEADLOCK FALSE
