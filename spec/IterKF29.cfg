SPECIFICATION Spec
CONSTANTS
  Contents <- Small6
  BoundModes <- BM2
  Schema = "AB"
  MaxDepth = 2
  Rich = FALSE
  EmitMin = 0
  Emit = FALSE
  FixF29 <- FixOff
  CustomOn <- SwitchOn
INVARIANT ExecMatches
INVARIANT DenMatches
INVARIANT MetaTruthful
INVARIANT WF
INVARIANT DiagSound
INVARIANT LazyPromise
INVARIANT ExecOnce
INVARIANT RejectsAll
CHECK_DEADLOCK FALSE
