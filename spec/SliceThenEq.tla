----------------------------- MODULE SliceThenEq -----------------------------
(***************************************************************************)
(* Ties the proved lemma (SliceThenProof, discharged by tlapm for all      *)
(* naturals) to the specification's Slice.then rule RA_Ops!SliceThen, which *)
(* the OpPairs replay in turn ties to the real Slice.then: TLC checks that  *)
(* the two definitions agree on every pair of valid slices with bounds up   *)
(* to Bound.                                                                *)
(***************************************************************************)
EXTENDS RA_Ops
CONSTANT Bound
P == INSTANCE SliceThenProof
VARIABLE x
Stops == {-1} \cup 0..Bound
Agree ==
    \A a1 \in 0..Bound, b1 \in Stops, a2 \in 0..Bound, b2 \in Stops :
        (P!ValidSlice(a1, b1) /\ P!ValidSlice(a2, b2)) =>
            SliceThen(Slice(a1, b1), Slice(a2, b2)) = Slice(P!ThenA(a1, b1, a2, b2), P!ThenB(a1, b1, a2, b2))
Init == x = 0
Next == x' = x
Spec == Init /\ [][Next]_x
Inv == Agree
=============================================================================
