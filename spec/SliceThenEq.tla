----------------------------- MODULE SliceThenEq -----------------------------
(***************************************************************************)
(* Ties the proved lemma (SliceThenProof, discharged by tlapm for all      *)
(* naturals) to the specification's Slice.then rule RA_Ops!SliceThen, which *)
(* the OpPairs replay in turn ties to the real Slice.then: TLC checks that  *)
(* the two definitions agree on every pair of valid slices with bounds up   *)
(* to Bound.                                                                *)
(***************************************************************************)
EXTENDS RA_Ops
CONSTANT Bound
P == INSTANCE SliceThenProof
VARIABLE x
Stops == {-1} \cup 0..Bound
Agree ==
    \A a1 \in 0..Bound, b1 \in Stops, a2 \in 0..Bound, b2 \in Stops :
        (P!ValidSlice(a1, b1) /\ P!ValidSlice(a2, b2)) =>
            SliceThen(Slice(a1, b1), Slice(a2, b2)) = Slice(P!ThenA(a1, b1, a2, b2), P!ThenB(a1, b1, a2, b2))
\* ... and the proved bound formulas are the specification's OpMin / OpMax for slices
BoundsAgree ==
    \A a \in 0..Bound, b \in Stops, tmin \in 0..Bound, tmax \in Stops :
        (P!ValidSlice(a, b) /\ (tmax = -1 \/ tmin <= tmax)) =>
            /\ OpMin(Slice(a, b), tmin, tmax, {"a"}) = P!SliceMin(a, b, tmin)
            /\ OpMax(Slice(a, b), tmin, tmax, {"a"}) = P!SliceMax(a, b, tmax)
\* the theorems themselves on all small instances (used as a fall-back when no SMT backend answers in time)
BoundedThen ==
    \A n \in 0..Bound, a1 \in 0..Bound, b1 \in Stops, a2 \in 0..Bound, b2 \in Stops :
        (P!ValidSlice(a1, b1) /\ P!ValidSlice(a2, b2)) =>
            LET lo1 == P!Lo(a1, n)  hi1 == P!Hi(a1, b1, n)  m == hi1 - lo1
                lo2 == lo1 + P!Lo(a2, m)  hi2 == lo1 + P!Hi(a2, b2, m)
                a == P!ThenA(a1, b1, a2, b2)  b == P!ThenB(a1, b1, a2, b2)
            IN /\ P!ValidSlice(a, b)
               /\ hi2 - lo2 = P!Hi(a, b, n) - P!Lo(a, n)
               /\ (hi2 > lo2 => lo2 = P!Lo(a, n) /\ hi2 = P!Hi(a, b, n))
BoundedBounds ==
    \A n \in 0..Bound, a \in 0..Bound, b \in Stops, tmin \in 0..Bound, tmax \in Stops :
        (P!ValidSlice(a, b) /\ tmin <= n /\ (tmax = -1 \/ n <= tmax)) =>
            LET len == P!Hi(a, b, n) - P!Lo(a, n) IN
            /\ P!SliceMin(a, b, tmin) <= len
            /\ P!SliceMax(a, b, tmax) = -1 \/ len <= P!SliceMax(a, b, tmax)
Init == x = 0
Next == x' = x
Spec == Init /\ [][Next]_x
Inv == Agree /\ BoundsAgree /\ BoundedThen /\ BoundedBounds
=============================================================================
