------------------------------ MODULE SqlProgram ------------------------------
(***************************************************************************)
(* Behaviour spec: programs of factory calls inside ONE SQL engine over    *)
(* leaf tables T1 (contents vary), T2 {a,c} and T3 {a,b}.                   *)
(*                                                                         *)
(*   state    t1, bnd   contents / bound declaration of table T1           *)
(*            hist      calls made so far                                  *)
(*            rel       the (conformed) tree the MODEL's Select machine    *)
(*                      builds                                             *)
(*            ref       reference rows (list semantics of the call seq.)   *)
(*   actions  Unary, Join / JoinLeft (with and without predicate),         *)
(*            Chain / ChainLeft, SelfTransfer                              *)
(*            binary operands are relations pre-built from T2 / T3 by a    *)
(*            fixed menu of operand programs                               *)
(*   checked in every state (model level)                                  *)
(*     BagMatches   C02  when the bag is determined (DetTree) the tree's   *)
(*                       denotation equals ref as a bag, for both physical *)
(*                       orders of the leaf tables                          *)
(*     ListMatches  C11  when the outermost level is totally sorted the    *)
(*                       denotation equals ref as a list, for both orders  *)
(*     Conformed    C17  Conform(rel) = rel, markers coherent              *)
(*     WF           C14, MetaTruthful C06, DiagSound C16                   *)
(*   every state is emitted (Binding A) and run on SQLite by the harness.  *)
(***************************************************************************)
EXTENDS RA_SqlCompile, RA_Diag, Json

CONSTANTS Contents, BoundModes, MenuKind, MaxDepth, StartChain, Emit,
          EmitMin      \* emit only states whose history has at least this length (simulation runs)

VARIABLES t1, bnd, hist, rel, ref
vars == <<t1, bnd, hist, rel, ref>>

A == Ref("a")
B == Ref("b")
CC == Ref("c")
D == Ref("d")

T2Rows == <<[a |-> 0, c |-> 1], [a |-> 1, c |-> 0], [a |-> 1, c |-> 1]>>
T3Rows == <<[a |-> 1, b |-> 1], [a |-> 0, b |-> 1], [a |-> 1, b |-> 1], [a |-> 1, b |-> 0]>>

BoundsOf(mode, n) ==
    CASE mode = "exact" -> <<n, n>>
      [] mode = "loose" -> <<Max2(n - 1, 0), n + 1>>
      [] mode = "zero"  -> <<0, n>>
      [] mode = "unb"   -> <<0, -1>>

LeafT1(rows, mode) == Leaf("T1", "sql", {"a", "b"}, BoundsOf(mode, Len(rows))[1], BoundsOf(mode, Len(rows))[2])
LeafT2 == Leaf("T2", "sql", {"a", "c"}, 0, -1)
LeafT3 == Leaf("T3", "sql", {"a", "b"}, 4, 4)
LeafX  == Leaf("X", "it1", {"a", "b"}, 1, 1)     \* a leaf of another engine (ill-formed operand)
\* relations made by the engine itself: statically empty ("doomed") and the join identity
LeafZ  == [k |-> "leaf", id |-> "Z", eng |-> "sql", cols |-> {"a", "b"}, min |-> 0, max |-> 0, msgs |-> 1]
LeafZ0 == [k |-> "leaf", id |-> "Z0", eng |-> "sql", cols |-> {}, min |-> 0, max |-> 0, msgs |-> 1]
LeafI  == Leaf("I", "sql", {}, 1, 1)

Env == [T1 |-> t1, T2 |-> T2Rows, T3 |-> T3Rows, Z |-> <<>>, Z0 |-> <<>>, I |-> << <<>> >>]

TotalAB == <<Term(A, TRUE), Term(B, FALSE)>>

(* ---------------- operands of binary calls: name -> [base, ops] ---------------- *)
OperandDefs ==
    [ T2    |-> [base |-> "T2", ops |-> <<>>],
      T2pa  |-> [base |-> "T2", ops |-> <<Proj({"a"})>>],
      T2dd  |-> [base |-> "T2", ops |-> <<Proj({"a"}), Dedup>>],
      T2sel |-> [base |-> "T2", ops |-> <<Sel(Cmp("eq", CC, Lit(1)))>>],
      T3    |-> [base |-> "T3", ops |-> <<>>],
      T3pa  |-> [base |-> "T3", ops |-> <<Proj({"a"})>>],
      T3sel |-> [base |-> "T3", ops |-> <<Sel(Cmp("eq", A, Lit(1)))>>],
      T3dd  |-> [base |-> "T3", ops |-> <<Dedup>>],
      \* deduplicated, THEN projected: "made of unique rows" no longer (rows that differed only in b)
      T3dp  |-> [base |-> "T3", ops |-> <<Dedup, Proj({"a"})>>],
      T3ss  |-> [base |-> "T3", ops |-> <<Sort(TotalAB), Slice(0, 2)>>],
      T3so  |-> [base |-> "T3", ops |-> <<Sort(TotalAB)>>],
      T3cal |-> [base |-> "T3", ops |-> <<Calc("f", Fn("add", <<A, B>>)), Proj({"a", "f"})>>] ]
OperandNames == DOMAIN OperandDefs

BaseLeaf(n) == CASE n = "T2" -> LeafT2 [] n = "T3" -> LeafT3
BaseRows(n) == CASE n = "T2" -> T2Rows [] n = "T3" -> T3Rows

RECURSIVE FoldApply(_, _)
FoldApply(t, ops) == IF ops = <<>> THEN t
                     ELSE Bind(ApplyUnary(Head(ops), t, DefaultOpts), LAMBDA x : FoldApply(x, Tail(ops)))

EngineMade == {"Z", "Z0", "I"}
OperandTree(name) ==
    IF name = "T3cc" THEN ApplyBinary(ChainOp, PlainSel(LeafT3), PlainSel(LeafT3))
    ELSE IF name = "X" THEN LeafX
    ELSE IF name = "Z" THEN PlainSel(LeafZ)
    ELSE IF name = "Z0" THEN PlainSel(LeafZ0)
    ELSE IF name = "I" THEN PlainSel(LeafI)
    ELSE FoldApply(PlainSel(BaseLeaf(OperandDefs[name].base)), OperandDefs[name].ops)
OperandRows(name) ==
    IF name = "T3cc" THEN T3Rows \o T3Rows
    ELSE IF name \in {"Z", "Z0"} THEN <<>>
    ELSE IF name = "I" THEN << <<>> >>
    ELSE ApplyOps(OperandDefs[name].ops, BaseRows(OperandDefs[name].base))
AllOperands == OperandNames \cup {"T3cc"} \cup EngineMade

(* ---------------- unary menus ---------------- *)
NCalcs(h) == Cardinality({i \in DOMAIN h : h[i].f = "un" /\ h[i].op.o = "calc"})
FreshTag(h) == IF NCalcs(h) = 0 THEN "d" ELSE "e"

GeneralPreds == {PLit(TRUE), PLit(FALSE), Cmp("lt", A, B), Cmp("eq", A, Lit(0)), In(B, Range(0, 2, 1)),
                 In(A, Range(1, -1, -1)),            \* a DESCENDING non-empty range (members 1, 0)
                 And(<<Cmp("ge", A, Lit(0)), Cmp("le", B, Lit(0))>>), Or(<<Cmp("eq", A, Lit(1)), Cmp("eq", B, Lit(0))>>),
                 Cmp("lt", D, Lit(1)), Cmp("eq", CC, A), Not(Cmp("eq", B, Lit(1)))}
GeneralSorts == {<<>>, <<Term(A, TRUE)>>, TotalAB, <<Term(Fn("neg", <<A>>), TRUE), Term(B, TRUE)>>, <<Term(B, TRUE), Term(A, TRUE)>>, <<Term(B, FALSE)>>,
                 <<Term(D, TRUE), Term(A, FALSE)>>, <<Term(A, FALSE), Term(CC, TRUE), Term(B, TRUE)>>}
GeneralCalcs == {Fn("add", <<A, B>>), Fn("neg", <<A>>), Fn("mul", <<D, Lit(2)>>)}
GeneralSlices == {Slice(0, -1), Slice(1, -1), Slice(0, 2), Slice(1, 2), Slice(0, 0), Slice(0, 1), Slice(2, 5)}

FocusPreds == {Cmp("eq", A, Lit(0)), Cmp("le", B, A)}
FocusSorts == {TotalAB, <<Term(B, TRUE)>>, <<Term(A, FALSE)>>, <<Term(Fn("neg", <<A>>), TRUE), Term(B, TRUE)>>,
               <<Term(B, FALSE)>>, <<Term(B, FALSE), Term(A, TRUE)>>}    \* a sub-list / a permutation of TotalAB's terms
FocusCalcs == {Fn("add", <<A, B>>)}
FocusSlices == {Slice(0, 1), Slice(1, 3), Slice(1, -1), Slice(1, 2)}

\* MenuKind "ss": only sorts and slices - programs of alternating (re-)sorts and windows to depth 4
\* (a later sort whose terms are a permutation / sub-list of the recorded ORDER BY; windows that move)
SSSorts == {TotalAB, <<Term(B, FALSE), Term(A, TRUE)>>, <<Term(B, TRUE)>>, <<Term(A, TRUE)>>}
SSSlices == {Slice(0, 3), Slice(1, 3), Slice(1, 2), Slice(0, 1)}
UnaryMenu(cols, h) ==
    IF MenuKind = "ss" THEN {Sort(x) : x \in {y \in SSSorts : SortColsOf(y) \subseteq cols}} \cup SSSlices ELSE
    LET preds == IF MenuKind = "focus" THEN FocusPreds ELSE GeneralPreds
        sorts == IF MenuKind = "focus" THEN FocusSorts ELSE GeneralSorts
        calcs == IF MenuKind = "focus" THEN FocusCalcs ELSE GeneralCalcs
        slices == IF MenuKind = "focus" THEN FocusSlices ELSE GeneralSlices
        projs == IF MenuKind = "focus" THEN {{}, {"a"}, {"b"}, {"a", "b"}} ELSE SUBSET cols
    IN (IF NCalcs(h) < 2 THEN {Calc(FreshTag(h), e) : e \in {x \in calcs : ReqE(x) \subseteq cols}} ELSE {})
         \cup {Proj(cs) : cs \in {x \in projs : x \subseteq cols}}
         \cup {Sel(p) : p \in {x \in preds : ReqP(x) \subseteq cols}}
         \cup {Dedup}
         \cup {Sort(s) : s \in {x \in sorts : SortColsOf(x) \subseteq cols}}
         \cup slices

UnCall(op) == [f |-> "un", op |-> op]

JoinPreds(cols) == {p \in {PLit(TRUE), Cmp("le", A, CC), Cmp("ne", B, A), Cmp("eq", B, CC)} : ReqP(p) \subseteq cols}

\* a relation that the join branch cannot merge into its FROM clause (it stays a
\* sub-query), so that joining it with ITSELF is legitimate without aliasing
\* (offered only early in a program: a self-join late in a deep program squares the row count and makes the
\* compile model's evaluation very expensive without adding a new shape)
Unstrippable(r) == r.k = "sel" /\ (r.dedup \/ HasSort(r) \/ HasSlice(r) \/ IsCompound(r)) /\ Len(hist) <= 2
BinaryCalls(r) ==
    IF MenuKind = "ss" THEN {} ELSE
    IF MenuKind = "focus"
    THEN {[f |-> "chain", rhs |-> "T3"], [f |-> "join", rhs |-> "T2", p |-> PLit(TRUE)]}
           \cup (IF Unstrippable(r) THEN {[f |-> "joinself"]} ELSE {})
    ELSE (IF Unstrippable(r) THEN {[f |-> "joinself"]} ELSE {}) \cup (UNION {{[f |-> "join", rhs |-> n, p |-> p] :
                     p \in JoinPreds(Cols(r) \cup (IF IsErr(OperandTree(n)) THEN {} ELSE Cols(OperandTree(n))))}
                 : n \in AllOperands})
           \cup {[f |-> "joinl", lhs |-> n] : n \in {"T2", "T3pa", "T3ss", "T2dd"}}
           \* Join(True).partial(operand, is_lhs=True).apply(r): r is the target, the operand the fixed LEFT side
           \cup {[f |-> "pjoinl", lhs |-> n] : n \in {"T2", "T3pa", "T2dd"}}
           \* Join(max_columns={a}).apply(r, operand): shared key columns outside max_columns are NOT matched
           \* (the output takes them from the rhs); with min_columns={b} as well: refused unless b is common
           \cup {[f |-> "joinmx", rhs |-> n, mx |-> {"a"}, mn |-> {}] : n \in {"T3", "T3dd"}}
           \cup {[f |-> "joinmx", rhs |-> "T2", mx |-> {"a", "b"}, mn |-> {"a"}]}
           \* the same through Join(max_columns=..).partial(operand).apply(r)
           \cup {[f |-> "pjoinmx", rhs |-> "T3", mx |-> {"a"}]}
           \cup {[f |-> "chain", rhs |-> n] : n \in AllOperands}
           \cup {[f |-> "chainl", lhs |-> n] : n \in {"T3", "T3ss", "T3pa"}}

CallResult(c, r) ==
    CASE c.f = "un" -> IF CtorErr(c.op) # "none" THEN Err(CtorErr(c.op)) ELSE ApplyUnary(c.op, r, DefaultOpts)
      [] c.f = "getitem" -> Err("TypeError")
      [] c.f = "join"  -> Bind(OperandTree(c.rhs), LAMBDA o : JoinRel(r, o, c.p, TRUE, FALSE))
      [] c.f = "joinl" -> Bind(OperandTree(c.lhs), LAMBDA o : JoinRel(o, r, PLit(TRUE), TRUE, FALSE))
      [] c.f = "pjoinl" -> Bind(OperandTree(c.lhs), LAMBDA o : JoinRelL(o, r, PLit(TRUE), TRUE, FALSE))
      [] c.f = "joinself" -> JoinRel(r, r, PLit(TRUE), TRUE, FALSE)
      [] c.f = "joinmx" -> Bind(OperandTree(c.rhs), LAMBDA o :
                              ApplyBinary([o |-> "join", p |-> PLit(TRUE), common |-> {}, res |-> FALSE, mx |-> c.mx, mn |-> c.mn], r, o))
      [] c.f = "pjoinmx" -> Bind(OperandTree(c.rhs), LAMBDA o :
                              ApplyUnary([o |-> "pjoin", fixed |-> o, p |-> PLit(TRUE), common |-> {}, res |-> FALSE, lhs |-> FALSE, mx |-> c.mx],
                                         r, DefaultOpts))
      [] c.f = "chain" -> Bind(OperandTree(c.rhs), LAMBDA o : ApplyBinary(ChainOp, r, o))
      [] c.f = "chainl" -> Bind(OperandTree(c.lhs), LAMBDA o : ApplyBinary(ChainOp, o, r))
      [] c.f = "xfer"  -> TransferTo(r, c.dest)

CommonCols(c1, c2) == {c \in c1 \cap c2 : IsKey(c)}

CallRows(c, r, rows) ==
    CASE c.f = "un" -> ApplyOp(c.op, rows)
      [] c.f = "join"  -> JoinRows(rows, OperandRows(c.rhs), CommonCols(Cols(r), Cols(OperandTree(c.rhs))), c.p)
      [] c.f \in {"joinl", "pjoinl"} -> JoinRows(OperandRows(c.lhs), rows, CommonCols(Cols(r), Cols(OperandTree(c.lhs))), PLit(TRUE))
      [] c.f = "joinself" -> JoinRows(rows, rows, CommonCols(Cols(r), Cols(r)), PLit(TRUE))
      [] c.f \in {"joinmx", "pjoinmx"} -> JoinRows(rows, OperandRows(c.rhs), CommonCols(Cols(r), Cols(OperandTree(c.rhs))) \cap c.mx, PLit(TRUE))
      [] c.f = "chain" -> rows \o OperandRows(c.rhs)
      [] c.f = "chainl" -> OperandRows(c.lhs) \o rows
      [] c.f = "xfer"  -> rows

Calls(r, h) == {UnCall(op) : op \in UnaryMenu(Cols(r), h)} \cup BinaryCalls(r)
                 \cup {[f |-> "xfer", dest |-> "sql"]}

\* StartChain: programs start from T1 UNION ALL T3 (a compound select), so that
\* the bounded depth is spent on operations over a chain
StartCall == [f |-> "chain", rhs |-> "T3"]
\* StartJoin (a definition a configuration may override with TRUE): programs start from
\* dedup(T1) JOIN[max_columns={a}] dedup(T3) - two deduplicated sub-queries that share the key
\* column b outside the equality constraint
StartJoin == FALSE
StartHist == IF StartJoin THEN <<UnCall(Dedup), [f |-> "joinmx", rhs |-> "T3dd", mx |-> {"a"}, mn |-> {}]>>
             ELSE IF StartChain THEN <<StartCall>> ELSE <<>>
RECURSIVE RunStart(_, _, _)
RunStart(h, r, rows) == IF h = <<>> THEN [t |-> r, rows |-> rows]
                        ELSE RunStart(Tail(h), CallResult(Head(h), r), CallRows(Head(h), r, rows))
Init == /\ t1 \in Contents
        /\ bnd \in BoundModes
        /\ hist = StartHist
        /\ LET run == RunStart(StartHist, PlainSel(LeafT1(t1, bnd)), t1) IN rel = run.t /\ ref = run.rows

Step == /\ Len(hist) < MaxDepth + Len(StartHist)
        /\ \E c \in Calls(rel, hist) :
              LET r == CallResult(c, rel) IN
              /\ ~IsErr(r)
              /\ rel' = r
              /\ ref' = CallRows(c, rel, ref)
              /\ hist' = Append(hist, c)
        /\ UNCHANGED <<t1, bnd>>

Next == Step
Spec == Init /\ [][Next]_vars

(* ---------------- invariants ---------------- *)
Rev == RevEnv(Env)
Det == DetTree(rel, Env) /\ DetTree(rel, Rev)
Ord == OrdTree(rel, Env) /\ OrdTree(rel, Rev)

BagMatches == Det => SameBag(Den(rel, Env), ref) /\ SameBag(Den(rel, Rev), ref)
ListMatches == Ord => Den(rel, Env) = ref /\ Den(rel, Rev) = ref
TargetMatches == Det => SameBag(DenT(rel, Env), ref)      \* the select read through its target chain
Conformed == Conform(rel) = rel /\ MarkerCoherent(rel)
WF == WellFormed(rel)

\* the compilation model: total on every reachable tree (C08), and what the
\* statement returns on the database - for both physical table orders - is
\* the reference bag / list whenever that is determined (C02 / C11)
Stmt == CompileTop(rel)
CompileTotal == ~IsErr(Stmt)
CompileBag == (Det /\ ~IsErr(Stmt)) => SameBag(RunSql(Stmt, Env, FALSE), ref) /\ SameBag(RunSql(Stmt, Env, TRUE), ref)
CompileList == (Ord /\ ~IsErr(Stmt)) => RunSql(Stmt, Env, FALSE) = ref /\ RunSql(Stmt, Env, TRUE) = ref
StrictlyCoherent == StrictCoherent(rel, TRUE)
\* companion (expected to FAIL): open finding F15 still occurs
KF15Gone == StrictCoherent(rel, FALSE)

NodeTruthful(n, env) ==
    LET d == Den(n, env) IN
    /\ MinR(n) <= Len(d)
    /\ MaxR(n) = -1 \/ Len(d) <= MaxR(n)
    /\ \A i \in DOMAIN d : DOMAIN d[i] = Cols(n)
    /\ JoinIdentity(n) => d = << <<>> >>
    /\ MaxR(n) = 0 => d = <<>>
MetaTruthful == \A n \in Nodes(rel) : NodeTruthful(n, Env) /\ NodeTruthful(n, Rev)

DiagSound ==
    Det => LET d0 == Diag(rel, Env, FALSE)
               d1 == Diag(rel, Env, TRUE)
           IN /\ d0.doomed => ref = <<>>
              /\ d1.doomed <=> ref = <<>>
              /\ d0.doomed => d0.msgs >= 1
              /\ d1.doomed => d1.msgs >= 1

IsNoOpCall(c, r) ==
    CASE c.f = "un"   -> IsNoOp(c.op, Cols(r))
      [] c.f = "xfer" -> c.dest = Eng(r)
      [] OTHER -> FALSE
NoOpIdentity == [][(hist' # hist /\ IsNoOpCall(hist'[Len(hist')], rel)) => rel' = rel]_vars

(* ---------------- raw trees: conform of a tree built without the engine ---------------- *)
RawStep(c, t) ==
    CASE c.f = "un"    -> Un(c.op, t)
      [] c.f = "join"  -> Bin(JoinOp(c.p, CommonCols(Cols(t), Cols(OperandTree(c.rhs)))), t, OperandTree(c.rhs))
      [] c.f \in {"joinl", "pjoinl"} -> Bin(JoinOp(PLit(TRUE), CommonCols(Cols(t), Cols(OperandTree(c.lhs)))), OperandTree(c.lhs), t)
      [] c.f = "joinself" -> Bin(JoinOp(PLit(TRUE), CommonCols(Cols(t), Cols(t))), t, t)
      [] c.f \in {"joinmx", "pjoinmx"} -> Bin(JoinOp(PLit(TRUE), CommonCols(Cols(t), Cols(OperandTree(c.rhs))) \cap c.mx), t, OperandTree(c.rhs))
      [] c.f = "chain" -> Bin(ChainOp, t, OperandTree(c.rhs))
      [] c.f = "chainl" -> Bin(ChainOp, OperandTree(c.lhs), t)
      [] c.f = "xfer"  -> t
RECURSIVE RawFold(_, _)
RawFold(h, t) == IF h = <<>> THEN t ELSE RawFold(Tail(h), RawStep(Head(h), t))
\* the same operation sequence assembled bottom-up with the plain constructors
RawTree == RawFold(hist, LeafT1(t1, bnd))
RawConf == Conform(RawTree)

RawConformKeeps ==
    LET c == RawConf IN
    IF IsErr(c) THEN c.err = "OrderLoss"
    ELSE /\ (BagDet(c, Env) /\ BagDet(c, Rev)) => SameBag(Den(c, Env), ref) /\ SameBag(Den(c, Rev), ref)
         /\ MarkerCoherent(c)
         /\ Conform(c) = c
         /\ Cols(c) = Cols(rel)

(* ---------------- requests that must be refused ---------------- *)
OnlyIterNeg == [x |-> "fn", f |-> "neg", args |-> <<A>>, only |-> "iter"]
OnlyIterCmp == [p |-> "cmp", f |-> "lt", l |-> A, r |-> Lit(1), only |-> "iter"]
\* a boolean function DECLARED for this engine whose argument is not supported by it
SqlCmpIterArg == [p |-> "cmp", f |-> "lt", l |-> OnlyIterNeg, r |-> Lit(1), only |-> "sql"]
IllCalls ==
    {UnCall(Calc("k", Ref("z"))), UnCall(Calc("a", Fn("neg", <<B>>))), UnCall(Calc("k", Lit(1))),
     UnCall(Proj({"a", "z"})), UnCall(SelRaw(Cmp("eq", Ref("z"), Lit(0)))),
     UnCall(Sort(<<Term(Ref("z"), TRUE)>>)), UnCall(Slice(-1, 2)), UnCall(Slice(3, 1)),
     [f |-> "getitem", a |-> 0, b |-> 4, step |-> 2],
     [f |-> "chain", rhs |-> "X"], [f |-> "join", rhs |-> "X", p |-> PLit(TRUE)],
     [f |-> "join", rhs |-> "T2", p |-> Cmp("eq", Ref("z"), A)],
     UnCall(Calc("k", OnlyIterNeg)), UnCall(Sort(<<Term(OnlyIterNeg, TRUE)>>)),
     UnCall(SelRaw(Or(<<Cmp("eq", A, Lit(0)), OnlyIterCmp>>))),
     UnCall(SelRaw(Not(Or(<<OnlyIterCmp, Cmp("eq", A, Lit(1))>>)))),
     UnCall(SelRaw(In(A, SeqC(<<Lit(1), OnlyIterNeg>>)))),
     UnCall(SelRaw(SqlCmpIterArg)), UnCall(SelRaw(And(<<Cmp("eq", A, Lit(0)), Not(SqlCmpIterArg)>>))),
     [f |-> "join", rhs |-> "T2", p |-> SqlCmpIterArg],
     [f |-> "join", rhs |-> "T2", p |-> Or(<<Cmp("eq", A, Lit(0)), OnlyIterCmp>>)]}

\* refused requests = ill-formed ones + regular ones the model refuses (column
\* errors after projections, and the documented row-order-loss error)
Rejects(r, h) ==
    {[call |-> c, err |-> CallResult(c, r).err] :
        c \in {x \in IllCalls \cup Calls(r, h) : IsErr(CallResult(x, r))}}

\* a sort without slice is never silently buried: binary calls on it are refused
\* (a sorted join IDENTITY - one row, no columns - joined with a relation of another engine just yields
\* that relation since the fix of F24: nothing is buried)
OrderLossRefused ==
    (rel.k = "sel" /\ HasSort(rel) /\ ~HasSlice(rel) /\ ~JoinIdentity(rel)) =>
        \A c \in BinaryCalls(rel) : IsErr(CallResult(c, rel))

(* ---------------- emission ---------------- *)
RECURSIVE NestedCompound(_)
NestedCompound(t) ==      \* a chain one of whose operands is itself a bare compound select
    CASE t.k = "leaf" -> FALSE
      [] t.k = "un" -> NestedCompound(t.t)
      [] t.k = "bin" -> \/ NestedCompound(t.l) \/ NestedCompound(t.r)
                        \/ (t.op.o = "chain" /\ \E x \in {t.l, t.r} :
                               x.k = "sel" /\ IsCompound(x) /\ ~HasSlice(x) /\ ~HasSort(x))
      [] t.k \in {"xfer", "mat"} -> NestedCompound(t.t)
      [] t.k = "sel" -> NestedCompound(t.skip)

Fired == Cardinality({m \in Nodes(rel) : m.k = "sel"}) > 1 \/ (rel.k = "sel" /\ SelOps(rel) # <<>>)

EmitState ==
    (Emit /\ Len(hist) >= EmitMin) =>
      LET d0 == Diag(rel, Env, FALSE)
          d1 == Diag(rel, Env, TRUE)
      IN PrintT(<<"ST", ToJson([
            t1 |-> t1, t2 |-> T2Rows, t3 |-> T3Rows, bnd |-> bnd,
            lmin |-> BoundsOf(bnd, Len(t1))[1], lmax |-> BoundsOf(bnd, Len(t1))[2],
            hist |-> hist, tree |-> rel, rows |-> ref, det |-> Det, ord |-> Ord,
            meta |-> [cols |-> Cols(rel), min |-> MinR(rel), max |-> MaxR(rel), eng |-> Eng(rel),
                      trivial |-> Trivial(rel), jid |-> JoinIdentity(rel)],
            doomed |-> <<d0.doomed, d1.doomed>>,
            nested |-> NestedCompound(rel),
            shape |-> (IF IsErr(Stmt) THEN [q |-> "error"] ELSE Shape(Stmt)),
            rawconf |-> RawConf,
            rawdet |-> (~IsErr(RawConf) /\ BagDet(RawConf, Env) /\ BagDet(RawConf, Rev)),
            rawnested |-> (~IsErr(RawConf) /\ NestedCompound(RawConf)),
            rejects |-> Rejects(rel, hist),
            fired |-> Fired])>>)
=============================================================================
