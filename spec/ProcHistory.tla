------------------------------ MODULE ProcHistory ------------------------------
(***************************************************************************)
(* Behaviour spec for C07 / C10: histories of Processor.process,           *)
(* iteration execute and attach_payload over ONE multi-engine tree whose   *)
(* marker nodes are shared by everything built from it.                    *)
(*                                                                         *)
(* Phase "build": factory calls (as in MultiEngine, default options) build *)
(* the tree `rel` over the source leaf L (SQL or iteration), including     *)
(* materializations (also directly after a transfer), chains with a        *)
(* statically empty leaf Z, chains of the tree with itself (sharing its    *)
(* materialization nodes) and a zero-column join-identity branch.          *)
(* Phase "eval": Process / ProcessAgain / ExecIter / Attach in any order.  *)
(*                                                                         *)
(* The abstract state is what the property talks about:                    *)
(*   pay[m]   rows held by the payload of input-tree materialization m     *)
(*            ("none" = no payload);  transfers of the input tree never    *)
(*            get one                                                      *)
(*   evals[m] how often m's upstream tree has been evaluated               *)
(* WriteOnce and EvalOnce are checked on this machine; the harness replays *)
(* every history into the real Processor / iteration engine and compares   *)
(* the REAL payload cells, hook calls, leaf iteration counts and rows with *)
(* this state after every step (conformance).                              *)
(***************************************************************************)
EXTENDS RA_SqlSem, RA_Proc, Json

CONSTANTS Contents, Sources, BuildDepth, EvalDepth, Emit

VARIABLES src, l1, hist, rel, ref, phase, pay, evals, evhist, lastErr
vars == <<src, l1, hist, rel, ref, phase, pay, evals, evhist, lastErr>>

A == Ref("a")
B == Ref("b")
LeafL(e, rows) == Leaf("L", e, {"a", "b"}, Len(rows), Len(rows))
LeafZ(e) == [k |-> "leaf", id |-> "Z", eng |-> e, cols |-> {"a", "b"}, min |-> 0, max |-> 0, msgs |-> 1]
Engines == {"sql", "it1", "it2"}
LeafI(e) == Leaf("I", e, {}, 1, 1)
Env == [L |-> l1, Z |-> <<>>, I |-> << <<>> >>]
JoinIPred == Cmp("eq", A, Lit(1))
TotalAB == <<Term(A, TRUE), Term(B, FALSE)>>

BuildOps == {Sel(Cmp("eq", A, Lit(1))), Sel(Cmp("eq", A, Lit(5))), Dedup, Sort(TotalAB), Slice(0, 2), Proj({"a"}), Proj({}),
             Calc("d", Fn("add", <<A, B>>))}

NMats(h) == Cardinality({i \in DOMAIN h : h[i].f = "mat"})
MatName(h) == IF NMats(h) = 0 THEN "m1" ELSE "m2"

BuildCalls(r, h) ==
    {[f |-> "un", op |-> op] : op \in {o \in BuildOps : BeginErr(o, Cols(r)) = "none" /\ ~IsNoOp(o, Cols(r))
                                                    /\ ~(o.o = "calc" /\ "d" \in Cols(r))}}
      \cup {[f |-> "xfer", dest |-> e] : e \in Engines \ {Eng(r)}}
      \cup (IF NMats(h) < 2 THEN {[f |-> "mat", name |-> MatName(h)]} ELSE {})
      \cup (IF Cols(r) = {"a", "b"} THEN {[f |-> "chainz"], [f |-> "chainzl"]} ELSE {})
      \cup (IF Len(h) >= 1 THEN {[f |-> "chainself"]} ELSE {})
      \* join with the SQL engine's join-identity relation under a predicate (the join node stays, F14)
      \cup (IF KindOf(Eng(r)) = "sql" /\ "a" \in Cols(r) THEN {[f |-> "joini"]} ELSE {})

CallResult(c, r) ==
    CASE c.f = "un"   -> ApplyUnary(c.op, r, DefaultOpts)
      [] c.f = "xfer" -> TransferTo(r, c.dest)
      [] c.f = "mat"  -> Materialize(r, c.name)
      [] c.f = "chainz" -> ApplyBinary(ChainOp, r, IF KindOf(Eng(r)) = "sql" THEN PlainSel(LeafZ(Eng(r))) ELSE LeafZ(Eng(r)))
      [] c.f = "chainzl" -> ApplyBinary(ChainOp, IF KindOf(Eng(r)) = "sql" THEN PlainSel(LeafZ(Eng(r))) ELSE LeafZ(Eng(r)), r)
      [] c.f = "chainself" -> ApplyBinary(ChainOp, r, r)
      [] c.f = "joini" -> JoinRel(r, PlainSel(LeafI(Eng(r))), JoinIPred, TRUE, FALSE)

CallRows(c, rows) ==
    CASE c.f = "un" -> ApplyOp(c.op, rows)
      [] c.f = "chainself" -> rows \o rows
      [] c.f = "joini" -> ApplyOp(Sel(JoinIPred), rows)
      [] OTHER -> rows

MatNodes(t) == {n \in Nodes(t) : n.k = "mat"}
MatNames == {"m1", "m2"}
NoPay == [m \in MatNames |-> <<"none">>]     \* <<"none">> = no payload, <<"rows", rows>> = payload

Init == /\ src \in Sources /\ l1 \in Contents
        /\ hist = <<>> /\ evhist = <<>>
        /\ rel = (IF src = "sql" THEN PlainSel(LeafL(src, l1)) ELSE LeafL(src, l1))
        /\ ref = l1
        /\ phase = "build"
        /\ pay = NoPay
        /\ evals = [m \in MatNames |-> 0]
        /\ lastErr = "none"

Build == /\ phase = "build" /\ Len(hist) < BuildDepth
         /\ \E c \in BuildCalls(rel, hist) :
               LET r == CallResult(c, rel) IN
               /\ ~IsErr(r)
               /\ rel' = r /\ ref' = CallRows(c, ref) /\ hist' = Append(hist, c)
         /\ UNCHANGED <<src, l1, phase, pay, evals, evhist, lastErr>>

\* histories are explored for trees on which processing has something to do:
\* a materialization, or a transfer above a chain (whose pruning rebuilds the tree)
StartEval == /\ phase = "build" /\ Len(hist) >= 1
             /\ \/ MatNodes(rel) # {}
                \/ \E n \in Nodes(rel) : n.k = "xfer" /\ \E m \in Nodes(n) : m.k = "bin"
             /\ phase' = "eval"
             /\ UNCHANGED <<src, l1, hist, rel, ref, pay, evals, evhist, lastErr>>

HasPay(m) == pay[m][1] = "rows"

\* materializations of the input tree reached by a traversal that stops at
\* payloaded materializations (and, for execute(), at statically trivial nodes)
RECURSIVE Reached(_, _)
Reached(t, viaExec) ==
    IF viaExec /\ (MaxR(t) = 0 \/ JoinIdentity(t)) THEN {}
    ELSE CASE t.k = "leaf" -> {}
           [] t.k = "un"   -> Reached(t.t, viaExec)
           [] t.k = "bin"  -> Reached(t.l, viaExec) \cup Reached(t.r, viaExec)
           \* process() does not descend below a statically trivial transfer
           [] t.k = "xfer" -> IF ~viaExec /\ (MaxR(t) = 0 \/ JoinIdentity(t)) THEN {} ELSE Reached(t.t, viaExec)
           [] t.k = "sel"  -> Reached(t.t, viaExec)
           [] t.k = "mat"  -> IF HasPay(t.name) THEN {} ELSE {t} \cup Reached(t.t, viaExec)

MatRows(n) == Den(n, Env)

\* open findings F8 / F16: see RA_Proc!KF8Tree
KF8(t) == KF8Tree(t)

SetPays(nodes) ==
    /\ pay' = [m \in MatNames |-> IF \E n \in nodes : n.name = m
                                  THEN <<"rows", MatRows(CHOOSE n \in nodes : n.name = m)>> ELSE pay[m]]
    /\ evals' = [m \in MatNames |-> IF \E n \in nodes : n.name = m THEN evals[m] + 1 ELSE evals[m]]

DoProcess == /\ phase = "eval" /\ Len(evhist) < EvalDepth
             /\ SetPays(Reached(rel, FALSE))
             /\ evhist' = Append(evhist, [a |-> "process"])
             /\ lastErr' = "none"
             /\ UNCHANGED <<src, l1, hist, rel, ref, phase>>

\* processing the tree returned by the previous process() call
DoProcessAgain == /\ phase = "eval" /\ Len(evhist) < EvalDepth
                  /\ \E i \in DOMAIN evhist : evhist[i].a = "process"
                  /\ evhist' = Append(evhist, [a |-> "reprocess"])
                  /\ lastErr' = "none"
                  /\ UNCHANGED <<src, l1, hist, rel, ref, phase, pay, evals>>

RECURSIVE IterOnly(_)
IterOnly(t) ==
    CASE t.k = "leaf" -> KindOf(t.eng) = "iter"
      [] t.k = "un"   -> IterOnly(t.t)
      [] t.k = "bin"  -> IterOnly(t.l) /\ IterOnly(t.r)
      [] t.k \in {"xfer", "mat"} -> IterOnly(t.t)
      [] t.k = "sel"  -> FALSE

DoExec == /\ phase = "eval" /\ Len(evhist) < EvalDepth
          /\ IterOnly(rel)
          /\ SetPays(Reached(rel, TRUE))
          /\ evhist' = Append(evhist, [a |-> "exec"])
          /\ lastErr' = "none"
          /\ UNCHANGED <<src, l1, hist, rel, ref, phase>>

\* attach_payload(target): "mat:<name>" | "leaf" | "root" (when the root is an
\* operation node) | "xfer" (the outermost transfer of the input tree)
AttachTargets == {"mat:m1", "mat:m2", "leaf", "root"}
DoAttach == /\ phase = "eval" /\ Len(evhist) < EvalDepth
            /\ \E tg \in AttachTargets :
                 /\ (tg = "mat:m1" => \E n \in MatNodes(rel) : n.name = "m1")
                 /\ (tg = "mat:m2" => \E n \in MatNodes(rel) : n.name = "m2")
                 /\ (tg = "root" => rel.k \in {"un", "bin"})
                 /\ LET m == IF tg = "mat:m1" THEN "m1" ELSE "m2"
                        ok == tg \in {"mat:m1", "mat:m2"} /\ ~HasPay(m)
                    IN /\ IF ok THEN pay' = [pay EXCEPT ![m] = <<"rows", MatRows(CHOOSE n \in MatNodes(rel) : n.name = m)>>]
                                ELSE pay' = pay
                       /\ lastErr' = IF ok THEN "none" ELSE "TypeError"
                 /\ evhist' = Append(evhist, [a |-> "attach", target |-> tg])
            /\ UNCHANGED <<src, l1, hist, rel, ref, phase, evals>>

\* users keep building on the tree a process() call returned: cached = processed.materialized("mw"),
\* then process(cached).  The payload state of the INPUT tree is not touched; what is demanded of the
\* new materialization is WrapSound below (finding F27).
DoWrap == /\ phase = "eval" /\ Len(evhist) < EvalDepth
          /\ evhist # <<>> /\ evhist[Len(evhist)].a \in {"process", "reprocess"}
          /\ evhist' = Append(evhist, [a |-> "wrap"])
          /\ lastErr' = "none"
          /\ UNCHANGED <<src, l1, hist, rel, ref, phase, pay, evals>>

Next == Build \/ StartEval \/ DoProcess \/ DoProcessAgain \/ DoExec \/ DoAttach \/ DoWrap
Spec == Init /\ [][Next]_vars

(* ---------------- properties ---------------- *)
WriteOnce == [][\A m \in MatNames : pay[m][1] = "rows" => pay'[m] = pay[m]]_vars
EvalOnce == \A m \in MatNames : evals[m] <= 1
PayTruthful == \A n \in MatNodes(rel) : HasPay(n.name) => pay[n.name][2] = MatRows(n)
\* after a process() every materialization of the input tree has a payload
ProcessedAll ==
    (phase = "eval" /\ evhist # <<>> /\ evhist[Len(evhist)].a = "process")
        => \A n \in Reached(rel, FALSE) : FALSE      \* nothing reachable is left without a payload

(* ---------------- the as-coded Processor refines the abstract machine ---------------- *)
\* RA_Proc!Process is the transcription of _process_recursive; on every tree
\* of the build phase (nothing payloaded yet) it must (unless the tree is in
\* the class of the open findings F8 / F16):
\*   - not raise,
\*   - leave exactly the materializations the abstract machine reaches payloaded,
\*   - call its hooks only on sources their engine can evaluate on its own and
\*     never for statically empty / join-identity relations,
\*   - return a tree with the same columns and engine that denotes the same rows.
AsCoded == ProcessTop(rel, {})
ProcessRefines ==
    (phase = "eval" /\ evhist = <<>> /\ ~KF8(rel)) =>
        /\ ~IsErr(AsCoded)
        /\ AsCoded.paid = {n.name : n \in Reached(rel, FALSE)}
        /\ \A i \in DOMAIN AsCoded.hooks : AsCoded.hooks[i].ok /\ ~AsCoded.hooks[i].trivial
        /\ Cols(AsCoded.t) = Cols(rel) /\ Eng(AsCoded.t) = Eng(rel)
        /\ (BagDet(rel, Env) /\ BagDet(AsCoded.t, Env)) => SameBag(Den(AsCoded.t, Env), ref)
\* companion (expected to FAIL): in the excluded class the as-coded processor misbehaves
KF8Gone ==
    (phase = "eval" /\ evhist = <<>> /\ KF8(rel)) =>
        /\ ~IsErr(AsCoded)
        /\ AsCoded.paid = {n.name : n \in Reached(rel, FALSE)}
        /\ \A i \in DOMAIN AsCoded.hooks : AsCoded.hooks[i].ok

\* finding F27: a materialization built on the tree process() returned must not adopt a transfer
\* payload that was not made for caching (it would re-evaluate its source on every read)
Wrapped == IF IsErr(AsCoded) THEN AsCoded ELSE MaterializedBy(AsCoded.t, "mw")
Wrap2 == IF IsErr(Wrapped) THEN Wrapped ELSE Process(Wrapped, "none", AsCoded.paid)
WrapSound ==
    (phase = "eval" /\ evhist = <<>> /\ ~KF8(rel) /\ ~IsErr(AsCoded) /\ ~IsErr(Wrapped)) =>
        /\ ~IsErr(Wrap2)
        /\ Wrap2.weak = {}

BDet == BagDet(rel, Env) /\ BagDet(rel, RevEnv(Env))
LDet == ListDet(rel, Env) /\ ListDet(rel, RevEnv(Env))
ContentKept == (LDet => Den(rel, Env) = ref) /\ (BDet => SameBag(Den(rel, Env), ref))

EmitState ==
    (Emit /\ phase = "eval") =>
      PrintT(<<"ST", ToJson([
            src |-> src, l1 |-> l1, hist |-> hist, evhist |-> evhist, tree |-> rel, rows |-> ref,
            ldet |-> LDet, bdet |-> BDet,
            pay |-> pay, evals |-> evals, lastErr |-> lastErr,
            iteronly |-> IterOnly(rel), kf8 |-> KF8(rel),
            hookspec |-> (IF IsErr(AsCoded) THEN <<>>
                          ELSE [i \in DOMAIN AsCoded.hooks |-> [hook |-> AsCoded.hooks[i].hook, mas |-> AsCoded.hooks[i].mas]]),
            mats |-> {n.name : n \in MatNodes(rel)},
            matrows |-> [m \in {n.name : n \in MatNodes(rel)} |-> MatRows(CHOOSE n \in MatNodes(rel) : n.name = m)],
            fired |-> evhist # <<>>])>>)
=============================================================================
