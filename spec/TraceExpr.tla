------------------------------ MODULE TraceExpr ------------------------------
(***************************************************************************)
(* Binding B for C12 / C13: validates answers RECORDED FROM THE REAL CODE  *)
(* against the specification's reference meaning.  Each line of the trace  *)
(* file (ndjson, path in env TRACE_FILE) is one event                      *)
(*   [id, kind, e, lo, hi,                                                 *)
(*    iter : table computed by the real iteration-engine callable,         *)
(*    sql  : table computed by SQLite from the real SQL translation,       *)
(*    triv : real as_trivial() ("T"|"F"|"N"),                              *)
(*    flat : [ok, ps] real flatten_logical_and(),                          *)
(*    norm : predicate stored by the real Selection,                       *)
(*    req  : real columns_required,                                        *)
(*    riter: table computed by the real callable on rows restricted to req]*)
(* Tables are sequences of integers (predicates: 1/0), -99999 = the real   *)
(* code raised.  TLC computes the truth table itself with EvalP / EvalE and *)
(* judges every recorded answer; verdicts are total (one TV line per       *)
(* failing event naming the failing clauses; TVDONE at the end).           *)
(***************************************************************************)
EXTENDS RA_Values, Json, IOUtils

Trace == ndJsonDeserialize(IOEnv.TRACE_FILE)

VARIABLE l

RowAtG(i, lo, n) == [a |-> lo + ((i - 1) \div n), b |-> lo + ((i - 1) % n)]
B2I(b) == IF b THEN 1 ELSE 0

Check(ev) ==
    LET n == ev.hi - ev.lo + 1
        R == [i \in 1..(n * n) |-> RowAtG(i, ev.lo, n)]
        isP == ev.kind = "pred"
        tab == [i \in 1..(n * n) |-> IF isP THEN B2I(EvalP(ev.e, R[i])) ELSE EvalE(ev.e, R[i])]
        reqSet == SeqSet(ev.req)
    IN
    [ iter |-> ev.iter = tab,
      sql  |-> ev.sql = tab,
      triv |-> IF ~isP THEN TRUE
               ELSE /\ ev.triv = "T" => \A i \in DOMAIN tab : tab[i] = 1
                    /\ ev.triv = "F" => \A i \in DOMAIN tab : tab[i] = 0,
      flat |-> IF ~isP THEN TRUE
               ELSE IF ev.flat.ok
                    THEN \A i \in DOMAIN tab :
                            B2I(\A j \in DOMAIN ev.flat.ps : EvalP(ev.flat.ps[j], R[i])) = tab[i]
                    ELSE \A i \in DOMAIN tab : tab[i] = 0,
      norm |-> IF ~isP THEN TRUE
               ELSE \A i \in DOMAIN tab : B2I(EvalP(ev.norm, R[i])) = tab[i],
      \* declared required columns are sufficient (real evaluation on the
      \* restricted row agrees) and necessary in the weak sense that they are
      \* columns of the schema that the expression mentions
      req  |-> /\ ev.riter = tab
               /\ reqSet = (IF isP THEN ReqP(ev.e) ELSE ReqE(ev.e))
    ]

AllOk(v) == v.iter /\ v.sql /\ v.triv /\ v.flat /\ v.norm /\ v.req

Init == l = 1

Next == /\ l <= Len(Trace)
        /\ LET v == Check(Trace[l]) IN
              IF AllOk(v) THEN TRUE
              ELSE PrintT(<<"TV", ToJson([id |-> Trace[l].id, v |-> v])>>)
        /\ l' = l + 1
        /\ (l' = Len(Trace) + 1 => PrintT(<<"TVDONE", Len(Trace)>>))

Spec == Init /\ [][Next]_l
=============================================================================
