SPECIFICATION Spec
CONSTANTS
  Contents <- C3
  BoundModes <- BM1
  MenuKind = "focus"
  MaxDepth = 3
  StartChain = TRUE
  EmitMin = 0
  Emit = FALSE
  FixF22 <- FixOff
INVARIANT CompileTotal
CHECK_DEADLOCK FALSE
