----------------------------- MODULE IterProgram -----------------------------
(***************************************************************************)
(* Behaviour spec: programs of factory calls inside the native-iteration   *)
(* engine (plus iteration -> iteration transfer), over every leaf content  *)
(* of a configuration.                                                     *)
(*                                                                         *)
(*   state     l1, bnd   contents and bound declaration of leaf L1         *)
(*             hist      the calls made so far                             *)
(*             rel       the tree the MODEL's rewrite rules produce        *)
(*             ref       reference rows: ApplyOp of the call sequence      *)
(*   actions   Unary (calc / proj / sel / dedup / sort / slice),           *)
(*             Chain (with leaf L2), ChainSelf, Materialized, Transferred  *)
(*   checked in every state                                                *)
(*     ExecMatches   C01  the execution model returns exactly ref          *)
(*     DenMatches    C05  the tree read structurally denotes ref           *)
(*     MetaTruthful  C06  columns / bounds / flags of EVERY node truthful  *)
(*     WF            C14  structural well-formedness                       *)
(*     DiagSound     C16  diagnostics verdicts                             *)
(*     LazyPromise   C18  the laziness model keeps the documented promise  *)
(*     NoOpIdentity  C14  documented no-op calls return the relation itself*)
(*   and every state is emitted (Binding A) with the ill-formed requests   *)
(*   that must be rejected in it (C20).                                    *)
(***************************************************************************)
EXTENDS RA_Engine, RA_IterExec, RA_Diag, Json

CONSTANTS Contents,    \* set of row sequences for L1
          BoundModes,  \* subset of {"exact", "loose", "zero", "unb"}
          Schema,      \* "AB" | "ZERO" | "AV"
          MaxDepth,
          Rich,
          Emit,
          EmitMin      \* emit only states whose history has at least this length (simulation runs)

VARIABLES l1, bnd, hist, rel, ref
vars == <<l1, bnd, hist, rel, ref>>

A == Ref("a")
B == Ref("b")
C == Ref("c")
D == Ref("d")
V == Ref("v")

BaseCols == CASE Schema = "AB" -> {"a", "b"} [] Schema = "ZERO" -> {} [] Schema = "AV" -> {"a", "v"}

L2Rows == CASE Schema = "AB" -> <<[a |-> 1, b |-> 0], [a |-> 0, b |-> 0]>>
            [] Schema = "ZERO" -> << <<>> >>
            [] Schema = "AV" -> <<[a |-> 1, v |-> 0], [a |-> 0, v |-> 1]>>

BoundsOf(mode, n) ==
    CASE mode = "exact" -> <<n, n>>
      [] mode = "loose" -> <<Max2(n - 1, 0), n + 1>>
      [] mode = "zero"  -> <<0, n>>
      [] mode = "unb"   -> <<0, -1>>

Leaf1(rows, mode) == Leaf("L1", "it1", BaseCols, BoundsOf(mode, Len(rows))[1], BoundsOf(mode, Len(rows))[2])
Leaf2 == Leaf("L2", "it1", BaseCols, Len(L2Rows), Len(L2Rows))
Leaf3 == Leaf("L3", "it1", BaseCols \cup {"z"}, 1, 1)      \* different columns (ill-formed chain operand)
Leaf4 == Leaf("L4", "it2", BaseCols, 1, 1)                  \* different engine (ill-formed chain operand)

Env == [L1 |-> l1, L2 |-> L2Rows]

(* ---------------- the call menu ---------------- *)
AllPreds ==
    {PLit(TRUE), PLit(FALSE), Cmp("lt", A, B), Cmp("eq", A, Lit(0)), In(B, Range(0, 2, 1)),
     In(A, Range(1, -1, -1)),            \* a DESCENDING non-empty range (members 1, 0)
     Not(In(B, Range(1, -1, -1))),       \* ... negated: false on every row of the value domain
     And(<<Cmp("gt", A, Lit(0)), Cmp("le", B, Lit(1))>>), Or(<<Cmp("eq", A, Lit(1)), Cmp("eq", B, Lit(0))>>),
     Cmp("lt", C, Lit(1)), Cmp("ne", A, Lit(1)), Not(Cmp("eq", B, Lit(1))),
     Cmp("eq", V, Lit(1)), And(<<PLit(TRUE), Cmp("ge", C, A)>>)}
      \cup (IF Rich THEN {In(A, SeqC(<<B, Lit(1)>>)), In(B, Range(2, 0, -2)), Cmp("gt", D, C),
                          And(<<Cmp("ge", A, Lit(0)), PLit(FALSE)>>)} ELSE {})

AllSorts ==
    {<<>>, <<Term(A, TRUE)>>, <<Term(A, FALSE)>>, <<Term(B, TRUE), Term(A, FALSE)>>,
     <<Term(B, FALSE)>>, <<Term(C, FALSE), Term(A, TRUE)>>, <<Term(V, TRUE)>>}
      \cup (IF Rich THEN {<<Term(A, TRUE), Term(A, FALSE)>>, <<Term(Fn("add", <<A, B>>), FALSE), Term(B, TRUE)>>,
                          <<Term(A, FALSE), Term(B, FALSE)>>, <<Term(B, TRUE), Term(A, TRUE), Term(C, FALSE)>>} ELSE {})

AllCalcExprs ==
    {Fn("add", <<A, B>>), Fn("neg", <<A>>), Fn("add", <<C, Lit(1)>>)}
      \cup (IF Rich THEN {Fn("mul", <<B, B>>), Fn("sub", <<A, V>>)} ELSE {})

AllSlices ==
    {Slice(0, -1), Slice(1, -1), Slice(0, 2), Slice(1, 2), Slice(2, 2), Slice(0, 0), Slice(1, 3), Slice(0, 1)}
      \cup (IF Rich THEN {Slice(2, -1), Slice(0, 3), Slice(3, 5)} ELSE {})

\* documented contract of ColumnTag.is_key: a non-key column is accompanied by
\* the key columns that determine it, so projections never keep v without a
ProjOK(cs) == ("v" \in cs) => ("a" \in cs)

NCalcs(h) == Cardinality({i \in DOMAIN h : h[i].f = "un" /\ h[i].op.o = "calc"})
FreshTag(h) == IF NCalcs(h) = 0 THEN "c" ELSE "d"

\* user-defined operations of the extension API (RA_Ops!Cust); a configuration switches them on
CustomOn == FALSE
UnaryMenu(cols, h) ==
    (IF CustomOn THEN {c \in {Cust(f) : f \in CustNames} : ReqOp(c) \subseteq cols} ELSE {}) \cup
    (IF NCalcs(h) < 2 THEN {Calc(FreshTag(h), e) : e \in {x \in AllCalcExprs : ReqE(x) \subseteq cols}} ELSE {})
      \cup {Proj(cs) : cs \in {x \in SUBSET cols : ProjOK(x)}}
      \cup {Sel(p) : p \in {x \in AllPreds : ReqP(x) \subseteq cols}}
      \cup {Dedup}
      \cup {Sort(s) : s \in {x \in AllSorts : (UNION {ReqE(x[i].e) : i \in DOMAIN x}) \subseteq cols}}
      \cup AllSlices

UnCall(op) == [f |-> "un", op |-> op]
NMats(h) == Cardinality({i \in DOMAIN h : h[i].f = "mat"})

(* ---------------- actions ---------------- *)
Init == /\ l1 \in Contents
        /\ bnd \in BoundModes
        /\ hist = <<>>
        /\ rel = Leaf1(l1, bnd)
        /\ ref = l1

Unary == /\ Len(hist) < MaxDepth
         /\ \E op \in UnaryMenu(Cols(rel), hist) :
               LET r == ApplyUnary(op, rel, DefaultOpts) IN
               /\ ~IsErr(r)
               /\ rel' = r
               /\ ref' = ApplyOp(op, ref)
               /\ hist' = Append(hist, UnCall(op))
         /\ UNCHANGED <<l1, bnd>>

Chain == /\ Len(hist) < MaxDepth
         /\ Eng(rel) = "it1" /\ Cols(rel) = BaseCols
         /\ LET r == ApplyBinary(ChainOp, rel, Leaf2) IN
            /\ ~IsErr(r)
            /\ rel' = r
            /\ ref' = ref \o L2Rows
            /\ hist' = Append(hist, [f |-> "chain", rhs |-> "L2"])
         /\ UNCHANGED <<l1, bnd>>

ChainSelf == /\ Len(hist) < MaxDepth /\ Len(hist) >= 1
             /\ LET r == ApplyBinary(ChainOp, rel, rel) IN
                /\ ~IsErr(r)
                /\ rel' = r
                /\ ref' = ref \o ref
                /\ hist' = Append(hist, [f |-> "chainself"])
             /\ UNCHANGED <<l1, bnd>>

\* chain with the ORIGINAL leaf L1 again (either side): the same leaf object,
\* and hence the same payload, is consumed twice in one tree
ChainBase == /\ Len(hist) < MaxDepth /\ Len(hist) >= 1
             /\ Eng(rel) = "it1" /\ Cols(rel) = BaseCols
             /\ \E left \in BOOLEAN :
                  LET base == Leaf1(l1, bnd)
                      r == IF left THEN ApplyBinary(ChainOp, base, rel) ELSE ApplyBinary(ChainOp, rel, base) IN
                  /\ ~IsErr(r)
                  /\ rel' = r
                  /\ ref' = IF left THEN l1 \o ref ELSE ref \o l1
                  /\ hist' = Append(hist, [f |-> "chainbase", left |-> left])
             /\ UNCHANGED <<l1, bnd>>

Materialized == /\ Len(hist) < MaxDepth
                /\ NMats(hist) < 2
                /\ LET nm == IF NMats(hist) = 0 THEN "m1" ELSE "m2"
                       r == Materialize(rel, nm) IN
                   /\ ~IsErr(r)
                   /\ rel' = r
                   /\ hist' = Append(hist, [f |-> "mat", name |-> nm])
                /\ UNCHANGED <<l1, bnd, ref>>

Transferred == /\ Len(hist) < MaxDepth
               /\ \E dest \in {"it1", "it2"} :
                    LET r == TransferTo(rel, dest) IN
                    /\ ~IsErr(r)
                    /\ rel' = r
                    /\ hist' = Append(hist, [f |-> "xfer", dest |-> dest])
               /\ UNCHANGED <<l1, bnd, ref>>

Next == Unary \/ Chain \/ ChainSelf \/ ChainBase \/ Materialized \/ Transferred
Spec == Init /\ [][Next]_vars

(* ---------------- invariants ---------------- *)
ExecMatches == Exec(rel, Env) = ref
DenMatches == Den(rel, Env) = ref

NodeTruthful(n) ==
    LET d == Den(n, Env) IN
    /\ MinR(n) <= Len(d)
    /\ MaxR(n) = -1 \/ Len(d) <= MaxR(n)
    /\ \A i \in DOMAIN d : DOMAIN d[i] = Cols(n)
    /\ JoinIdentity(n) => d = << <<>> >>
    /\ Trivial(n) => (d = <<>> \/ d = << <<>> >>)
MetaTruthful == \A n \in Nodes(rel) : NodeTruthful(n)

WF == WellFormed(rel)

DiagSound ==
    LET d0 == Diag(rel, Env, FALSE)
        d1 == Diag(rel, Env, TRUE)
    IN /\ d0.doomed => ref = <<>>
       /\ d1.doomed <=> ref = <<>>
       /\ d0.doomed => d0.msgs >= 1
       /\ d1.doomed => d1.msgs >= 1

LazyPromise ==
    LET c == Cost(rel)  cm == CostM(rel)  occ == Occ(rel) IN
    LazyOnly(rel) => /\ \A i \in DOMAIN c.ex : c.ex[i] = 0 /\ cm.ex[i] = 0
                     /\ \A i \in DOMAIN c.it : c.it[i] <= occ[i] /\ cm.it[i] <= occ[i]

\* whatever consumes its input at execute time (sort, deduplication, materialization, extension
\* operations) does so at most once: execute() never starts more iterations of a leaf payload than
\* the leaf has occurrences in the tree
ExecOnce ==
    LET c == Cost(rel)  cm == CostM(rel)  occ == Occ(rel) IN
    \A i \in DOMAIN c.ex : c.ex[i] <= occ[i] /\ cm.ex[i] <= occ[i]

\* the documented no-op calls return the relation itself
IsNoOpCall(c, r) ==
    CASE c.f = "un"   -> IsNoOp(c.op, Cols(r))
      [] c.f = "xfer" -> c.dest = Eng(r)
      [] OTHER -> FALSE
NoOpIdentity == [][(hist' # hist /\ IsNoOpCall(hist'[Len(hist')], rel)) => rel' = rel]_vars

(* ---------------- ill-formed requests (C20) ---------------- *)
OnlySqlNeg == [x |-> "fn", f |-> "neg", args |-> <<A>>, only |-> "sql"]
OnlySqlCmp == [p |-> "cmp", f |-> "lt", l |-> A, r |-> Lit(1), only |-> "sql"]

IllCalls ==
    {UnCall(Calc("k", Ref("z"))), UnCall(Calc("a", Fn("neg", <<B>>))), UnCall(Calc("k", Lit(1))),
     UnCall(Calc("k", Fn("add", <<A, Ref("z")>>))),
     UnCall(Proj({"a", "z"})), UnCall(Proj({"z"})),
     UnCall(SelRaw(Cmp("eq", Ref("z"), Lit(0)))), UnCall(SelRaw(And(<<Cmp("eq", A, Lit(0)), Cmp("lt", Ref("z"), A)>>))),
     UnCall(Sort(<<Term(Ref("z"), TRUE)>>)), UnCall(Sort(<<Term(A, TRUE), Term(Ref("z"), FALSE)>>)),
     UnCall(Slice(-1, 2)), UnCall(Slice(3, 1)), UnCall(Slice(-2, -1)),
     [f |-> "getitem", a |-> 0, b |-> 4, step |-> 2], [f |-> "getitem", a |-> 0, b |-> -1, step |-> -1],
     [f |-> "chain", rhs |-> "L3"], [f |-> "chain", rhs |-> "L4"],
     UnCall(Calc("k", OnlySqlNeg)), UnCall(SelRaw(OnlySqlCmp)), UnCall(Sort(<<Term(OnlySqlNeg, TRUE)>>)),
     \* an unsupported function nested inside OR / NOT / a container
     UnCall(SelRaw(Or(<<Cmp("eq", A, Lit(0)), OnlySqlCmp>>))),
     UnCall(SelRaw(Not(Or(<<OnlySqlCmp, Cmp("eq", A, Lit(1))>>)))),
     UnCall(SelRaw(And(<<Cmp("ge", A, Lit(0)), Or(<<Cmp("eq", A, Lit(0)), OnlySqlCmp>>)>>))),
     UnCall(SelRaw(In(A, SeqC(<<Lit(1), OnlySqlNeg>>))))}
    \* requests of the regular menu whose columns have been projected away
      \cup {UnCall(op) : op \in {Sel(Cmp("eq", A, Lit(0))), Sort(<<Term(B, TRUE)>>), Calc("k", Fn("add", <<A, B>>)),
                                 Sel(Cmp("lt", C, Lit(1)))}}

CallResult(c, r) ==
    CASE c.f = "un" ->
            IF CtorErr(c.op) # "none" THEN Err(CtorErr(c.op)) ELSE ApplyUnary(c.op, r, DefaultOpts)
      [] c.f = "getitem" -> Err("TypeError")
      [] c.f = "chain" -> ApplyBinary(ChainOp, r, CASE c.rhs = "L2" -> Leaf2 [] c.rhs = "L3" -> Leaf3 [] c.rhs = "L4" -> Leaf4)

Rejects(r) == {[call |-> c, err |-> CallResult(c, r).err] : c \in {x \in IllCalls : IsErr(CallResult(x, r))}}

\* every request that is ill-formed for the current relation is rejected by the model
RejectsAll ==
    \A c \in IllCalls :
        LET illFormed ==
              CASE c.f = "un" -> CtorErr(c.op) # "none" \/ BeginErr(c.op, Cols(rel)) # "none"
                                   \/ (~IsNoOp(c.op, Cols(rel)) /\ ~SupOp(c.op, KindOf(Eng(rel))))
                [] c.f = "getitem" -> TRUE
                [] c.f = "chain" -> LET o == CASE c.rhs = "L2" -> Leaf2 [] c.rhs = "L3" -> Leaf3 [] c.rhs = "L4" -> Leaf4
                                    IN Eng(o) # Eng(rel) \/ Cols(o) # Cols(rel)
        IN illFormed => IsErr(CallResult(c, rel))

(* ---------------- emission (Binding A) ---------------- *)
Fired ==    \* some rewrite rule changed the naive one-node-per-call shape
    LET n == Cardinality({i \in DOMAIN hist : hist[i].f \in {"un", "chain", "chainself", "chainbase", "mat", "xfer"}}) IN
    Cardinality({m \in Nodes(rel) : m.k # "leaf"}) # n

EmitState ==
    (Emit /\ Len(hist) >= EmitMin) =>
      LET c == Cost(rel)
          d0 == Diag(rel, Env, FALSE)
          d1 == Diag(rel, Env, TRUE)
      IN PrintT(<<"ST", ToJson([
            schema |-> Schema, cols |-> BaseCols, l1 |-> l1, l2 |-> L2Rows, bnd |-> bnd,
            lmin |-> BoundsOf(bnd, Len(l1))[1], lmax |-> BoundsOf(bnd, Len(l1))[2],
            hist |-> hist, tree |-> rel, rows |-> ref,
            meta |-> [cols |-> Cols(rel), min |-> MinR(rel), max |-> MaxR(rel), eng |-> Eng(rel),
                      trivial |-> Trivial(rel), jid |-> JoinIdentity(rel)],
            doomed |-> <<d0.doomed, d1.doomed>>,
            lazy |-> [only |-> LazyOnly(rel), ex |-> c.ex, it |-> c.it, occ |-> Occ(rel)],
            lazym |-> [ex |-> CostM(rel).ex, it |-> CostM(rel).it],
            rejects |-> Rejects(rel),
            fired |-> Fired])>>)
=============================================================================
