SPECIFICATION Spec
CONSTANTS
  Contents <- Small6
  BoundModes <- BM1
  Schema = "AB"
  MaxDepth = 3
  Rich = FALSE
  EmitMin = 0
  Emit = TRUE
INVARIANT ExecMatches
INVARIANT DenMatches
INVARIANT MetaTruthful
INVARIANT WF
INVARIANT DiagSound
INVARIANT LazyPromise
INVARIANT ExecOnce
INVARIANT RejectsAll
INVARIANT EmitState
PROPERTY NoOpIdentity
CHECK_DEADLOCK FALSE
