--------------------------- MODULE SliceThenProof ---------------------------
(***************************************************************************)
(* Unbounded arithmetic core of property C05 for slices: merging two       *)
(* slices with Slice.then (as fixed, with clamping) selects exactly the    *)
(* index window that applying them one after the other selects, for every  *)
(* length n of the target and all bounds.  A slice [a, b) (b = -1: open)   *)
(* applied to a sequence of length n selects the index window              *)
(*      Lo(a, n) .. Hi(a, b, n)   (half-open, as offsets into the input).  *)
(***************************************************************************)
EXTENDS Integers, TLAPS

Min2(x, y) == IF x <= y THEN x ELSE y
Max2(x, y) == IF x >= y THEN x ELSE y

Lo(a, n) == Min2(a, n)
Hi(a, b, n) == IF b = -1 THEN n ELSE Max2(Min2(b, n), Min2(a, n))

\* Slice.then (with the clamp of the fix of finding F6)
ThenA(a1, b1, a2, b2) ==
    LET ns == a1 + a2
        nt == IF b1 = -1 THEN (IF b2 = -1 THEN -1 ELSE b2 + a1)
              ELSE (IF b2 = -1 THEN b1 ELSE Min2(b1, b2 + a1))
    IN IF nt # -1 /\ nt < ns THEN nt ELSE ns
ThenB(a1, b1, a2, b2) ==
    IF b1 = -1 THEN (IF b2 = -1 THEN -1 ELSE b2 + a1)
    ELSE (IF b2 = -1 THEN b1 ELSE Min2(b1, b2 + a1))

ValidSlice(a, b) == a \in Nat /\ (b = -1 \/ (b \in Nat /\ b >= a))

THEOREM SliceThenWindow ==
    ASSUME NEW n \in Nat, NEW a1 \in Nat, NEW b1 \in Int, NEW a2 \in Nat, NEW b2 \in Int,
           ValidSlice(a1, b1), ValidSlice(a2, b2)
    PROVE  LET lo1 == Lo(a1, n)
               hi1 == Hi(a1, b1, n)
               m == hi1 - lo1                       \* length after the first slice
               lo2 == lo1 + Lo(a2, m)               \* second slice, as offsets into the original
               hi2 == lo1 + Hi(a2, b2, m)
               a == ThenA(a1, b1, a2, b2)
               b == ThenB(a1, b1, a2, b2)
           IN /\ ValidSlice(a, b)
              /\ hi2 - lo2 = Hi(a, b, n) - Lo(a, n)           \* same number of rows
              /\ (hi2 > lo2 => lo2 = Lo(a, n) /\ hi2 = Hi(a, b, n))   \* and, when non-empty, the same window
BY SMTT(120) DEF Lo, Hi, ThenA, ThenB, ValidSlice, Min2, Max2

(***************************************************************************)
(* Unbounded arithmetic core of property C06 for slices: the row bounds a   *)
(* Slice declares (Slice.applied_min_rows / applied_max_rows) are truthful  *)
(* for EVERY actual row count n of the target that lies within the target's *)
(* own declared bounds [tmin, tmax] (tmax = -1: unbounded).                 *)
(***************************************************************************)
SliceMin(a, b, tmin) ==
    LET stop == IF b # -1 THEN Min2(b, tmin) ELSE tmin IN Max2(stop - a, 0)
SliceMax(a, b, tmax) ==
    IF b # -1
    THEN LET stop == IF tmax # -1 THEN Min2(b, tmax) ELSE b IN Max2(stop - a, 0)
    ELSE IF tmax # -1 THEN Max2(tmax - a, 0) ELSE -1

THEOREM SliceBoundsTruthful ==
    ASSUME NEW n \in Nat, NEW a \in Nat, NEW b \in Int, NEW tmin \in Nat, NEW tmax \in Int,
           ValidSlice(a, b), tmin <= n, tmax = -1 \/ (tmax \in Nat /\ n <= tmax)
    PROVE  LET len == Hi(a, b, n) - Lo(a, n) IN
           /\ SliceMin(a, b, tmin) <= len
           /\ SliceMax(a, b, tmax) = -1 \/ len <= SliceMax(a, b, tmax)
           /\ SliceMin(a, b, tmin) \in Nat
           /\ (SliceMax(a, b, tmax) # -1 => SliceMax(a, b, tmax) \in Nat /\ SliceMin(a, b, tmin) <= SliceMax(a, b, tmax))
BY SMTT(120) DEF Lo, Hi, SliceMin, SliceMax, ValidSlice, Min2, Max2
=============================================================================
